#!/usr/bin/env python3
"""Builds gdsim (asan and plain variants) from /repo's current working tree with a content-hash cache.

Objects live under /verif/build/<variant>/; each object is keyed by a hash of its preprocessed-input
closure (the source and every header under /repo/include, /repo/external, /verif/src) and the flags,
so an edited /repo file is always recompiled and an untouched one is not.
"""
import hashlib, os, subprocess, sys, json, glob
from concurrent.futures import ThreadPoolExecutor

VERIF = os.path.dirname(os.path.abspath(__file__))
REPO = os.environ.get("GDSTK_REPO", "/repo")
BUILD = os.path.join(VERIF, "build")
GUARD = "GDSTK_VERIF_SIM"

COMMON = ["-std=c++17", "-DGDSTK_CUSTOM_ALLOCATOR", "-DNDEBUG", "-D" + GUARD, "-U_FORTIFY_SOURCE", "-D_FORTIFY_SOURCE=0",
          "-I" + os.path.join(REPO, "include"), "-I" + os.path.join(REPO, "external"), "-I" + os.path.join(VERIF, "src"),
          "-fno-omit-frame-pointer", "-g1", "-w"]
VARIANTS = {
    # UBSan is limited to the checks that denote memory errors or reads of uninitialised (junk-filled) fields;
    # nonnull-attribute (memcpy(NULL, p, 0) in Array::extend), alignment (unaligned record buffer reads by design),
    # integer overflow and shifts are not what any claimed property speaks about.
    "asan": ["-O1", "-fsanitize=address,bounds,null,bool,enum,return,unreachable,vla-bound",
             "-fno-sanitize-recover=all"],
    "plain": ["-O2"],
}
WRAPS = ["fopen", "fclose", "fread", "fwrite", "putc", "fputc", "fseek", "ftell", "feof", "ferror", "fflush",
         "fileno", "pread", "time", "localtime_r"]
CXX = os.environ.get("CXX", "g++")


def sources():
    gd = sorted(glob.glob(os.path.join(REPO, "src", "*.cpp")))
    gd.append(os.path.join(REPO, "external", "clipper", "clipper.cpp"))
    own = sorted(glob.glob(os.path.join(VERIF, "src", "*.cpp")))
    return gd, own


def header_digest():
    h = hashlib.sha256()
    pats = [os.path.join(REPO, "include", "gdstk", "*.hpp"), os.path.join(REPO, "external", "clipper", "*.hpp"),
            os.path.join(REPO, "external", "*.h*"), os.path.join(VERIF, "src", "*.hpp")]
    for pat in pats:
        for f in sorted(glob.glob(pat)):
            h.update(f.encode())
            h.update(open(f, "rb").read())
    return h.hexdigest()


def build(variant, jobs=16, verbose=False):
    flags = COMMON + VARIANTS[variant]
    outdir = os.path.join(BUILD, variant)
    os.makedirs(outdir, exist_ok=True)
    hd = header_digest()
    gd, own = sources()
    tasks = []
    objs = []
    for src in gd + own:
        key = hashlib.sha256()
        key.update(hd.encode())
        key.update(" ".join(flags).encode())
        key.update(CXX.encode())
        key.update(open(src, "rb").read())
        tag = ("repo_" if src.startswith(REPO) else "own_") + os.path.basename(src).replace(".cpp", "")
        obj = os.path.join(outdir, "%s-%s.o" % (tag, key.hexdigest()[:16]))
        objs.append(obj)
        if not os.path.exists(obj):
            for old in glob.glob(os.path.join(outdir, tag + "-*.o")):
                os.remove(old)
            tasks.append((src, obj))

    def compile_one(t):
        src, obj = t
        cmd = [CXX] + flags + ["-c", src, "-o", obj + ".tmp"]
        r = subprocess.run(cmd, capture_output=True, text=True)
        if r.returncode != 0:
            return (src, r.stderr)
        os.rename(obj + ".tmp", obj)
        return None

    errors = []
    if tasks:
        with ThreadPoolExecutor(max_workers=jobs) as ex:
            for res in ex.map(compile_one, tasks):
                if res:
                    errors.append(res)
    if errors:
        for src, err in errors:
            sys.stderr.write("build error in %s:\n%s\n" % (src, err[-4000:]))
        return None
    exe = os.path.join(outdir, "gdsim")
    stamp = os.path.join(outdir, "link.stamp")
    link_key = hashlib.sha256(("\n".join(objs) + " ".join(flags)).encode()).hexdigest()
    if tasks or not os.path.exists(exe) or not os.path.exists(stamp) or open(stamp).read() != link_key:
        cmd = [CXX] + VARIANTS[variant] + ["-o", exe] + objs + ["-Wl," + ",".join("--wrap=" + w for w in WRAPS),
                                                                 "-lz", "-lqhull_r", "-lm"]
        r = subprocess.run(cmd, capture_output=True, text=True)
        if r.returncode != 0:
            sys.stderr.write("link error:\n%s\n" % r.stderr[-4000:])
            return None
        open(stamp, "w").write(link_key)
    if verbose:
        print("built %s (%d compiled)" % (exe, len(tasks)))
    return exe


if __name__ == "__main__":
    variants = sys.argv[1:] or ["asan", "plain"]
    ok = True
    for v in variants:
        if build(v, verbose=True) is None:
            ok = False
    sys.exit(0 if ok else 3)
