#!/usr/bin/env python3
"""Writes MANIFEST.json from one table so that it stays consistent with what ./check implements."""
import json, os
VERIF = os.path.dirname(os.path.abspath(__file__))

CLAIMED = {
    "C01": {
        "category": "exploration",
        "text": "Save/load histories on the simulated file system: a generated library (all element kinds x repetition kinds x transforms x property "
                "payloads, off-grid coordinates, >8190-vertex polygons, non-simple paths) is saved by write_gds or an incremental GdsWriter "
                "session, loaded, and re-saved/re-loaded up to 5 more times, under a seeded dirty moving heap, random stdio buffer sizes, "
                "short device reads, handle pressure and clock moves (benign faults: they must be invisible).  Oracle: canonical integer-grid "
                "form of the loaded library == the model with exactly the representational changes the property lists; fractured / outlined "
                "elements by exact area + seeded winding samples; later cycles == cycle 1.  Exploration by seed is the right level: the "
                "quantifier is over all libraries and histories, nothing finite to enumerate.",
        "design_ref": "DESIGN.md 5.3",
        "note": "Trusted: the checker's canonicaliser and model->gdstk builder; the outline of a non-simple path is gdstk's own to_polygons "
                "(its geometric correctness is C07/C08). One open known finding (F5) is re-demonstrated on every run.",
        "technique": "deterministic simulation: seeded save/load histories with benign environment faults against a reference model",
    },
    "C02": {
        "category": "exploration",
        "text": "As C01 with write_oas/read_oas, with the configuration space as swarm: run i uses option set (i*2654435761 + seed) mod 5120 of "
                "256 flag sets x 10 deflate levels x circle tolerance {0,>0}, so consecutive runs sweep all 5120 combinations; libraries "
                "include references to cells outside the library, negative explicit repetition offsets, 32-bit tags, typed user properties.  "
                "Oracle: canonical form equal to the model (repetitions kept structurally as offset multisets, S_* properties set aside), "
                "detected circles within the stated tolerances (two-sided boundary distance), later cycles change nothing; signature clause: "
                "stored bytes == independent CRC-32 / byte sum, oas_validate agrees, and after seeded bit/byte flips (storage faults) the "
                "verdict equals the independent recomputation.",
        "design_ref": "DESIGN.md 5.4",
        "note": "Trusted: canonicaliser, builder, own CRC-32. Non-simple paths are outside the property's quantifier and not generated. "
                "One open known finding (F11) is re-demonstrated on every run.",
        "technique": "deterministic simulation: seeded save/load histories over the full writer-option space, storage bit flips against an independent checksum",
    },
    "C03": {
        "category": "exploration",
        "text": "Two parties exchange files through the simulated disk: an independent GDSII encoder (written from the format description, with "
                "a seeded vector of legal serialisation choices) produces files that read_gds must load to exactly the encoded layout, and an "
                "independent strict decoder must accept and correctly decode every file gdstk writes (record framing, data types, element "
                "grammar, closed boundaries, field ranges, 8-byte reals, timestamps).  Same environment faults as C01.",
        "design_ref": "DESIGN.md 5.5",
        "note": "Trusted: the peer codec (self-checked: encoder.decoder identity over all choices, decodes tests/proof_lib.gds); constructs whose "
                "legality could not be pinned down are not generated (DESIGN.md section 8).",
        "technique": "deterministic simulation: differential exchange with an independent codec over a simulated disk",
    },
    "C04": {
        "category": "exploration",
        "text": "Two parties exchange OASIS files through the simulated disk.  Direction 1: an independent encoder (own modal-variable "
                "bookkeeping; seeded choices: modal reuse per field, XYRELATIVE/XYABSOLUTE switches, every repetition type 0-11 incl. grid "
                "variants and reuse, all six point-list types, all eight real encodings, RECTANGLE/SQUARE, TRAPEZOID A/B/AB both orientations, "
                "CTRAPEZOID types, CIRCLE, PLACEMENT 17/18, names inline or by reference number with tables before/after the cells, implicit "
                "or explicit numbering, PROPERTY value reuse / repeat records / PROPSTRING references, PAD, CBLOCKs around cell bodies, random "
                "record runs or name tables, offsets in START or END, strict or not, none/CRC32/CHECKSUM32) writes files that read_oas must "
                "load to exactly the encoded layout.  Direction 2: an independent strict decoder reads every file write_oas produces over "
                "the 5120 option sets and checks content plus what the file says about itself: END is 256 bytes and last, table offsets, "
                "validation signature, S_TOP_CELL, S_CELL_OFFSET, S_BOUNDING_BOX (polygon/label hierarchies), S_MAX_* bounds.",
        "design_ref": "DESIGN.md 5.6",
        "note": "Trusted: the peer codec, written from memory of SEMI P39 (self-checked: encoder.decoder identity over all choices, decodes "
                "tests/min_length_path.oas). Constructs that could not be pinned down are not generated: reliance on modal geometry-w/h "
                "after a record that only implies them (square, CTRAPEZOID 16-23/25). One open known finding (F13) is re-demonstrated on every run.",
        "technique": "deterministic simulation: differential exchange with an independent OASIS codec over a simulated disk, truth checks on the stored bytes",
    },
    "C17": {
        "category": "exploration",
        "text": "Sessions that share one stored file and its handles are interleaved by a seeded discrete-event scheduler: loaders (gds_info, "
                "gds_units, gds_timestamp, read_gds plain / with a tag filter / with a target unit), raw-cell holders (read_rawcells keeps the "
                "source handle open across turns; subsets closed under dependencies are copied into other files by write_gds or by a multi-turn "
                "GdsWriter session mixed with fresh cells; the rest is cleared in a seeded order), in-place timestamp rewrites (also torn by a "
                "crash at a chosen device write), clock moves and benign environment faults.  Oracles: every shortcut equals the full load "
                "(and the independent decoder's census); copied raw cells load like their source at the copy instant; after EVERY device write "
                "of a rewrite the changed bytes lie inside BGNLIB/BGNSTR timestamp fields; exactly one source handle per live raw-cell set, "
                "closed exactly when its last cell is drained or cleared.",
        "design_ref": "DESIGN.md 5.2",
        "note": "Trusted: the peer decoder's byte ranges; canonicaliser. The schedule dimension is narrow (steps are whole API calls); most "
                "of the deciding power is in the differential oracles and the write-granular containment check.",
        "technique": "deterministic simulation: seeded interleaving of reader/raw-cell/rewriter sessions over a simulated file system, differential oracles",
    },
    "C18": {
        "category": "fault_enumeration",
        "text": "Every reader named by the property is run, under ASan/bounds/null/bool/enum sanitizers with a seeded dirty, always-moving heap, on valid "
                "files (write_gds, GdsWriter, independent encoder, write_oas with random options) damaged the two ways the property names: "
                "torn saves (the writer really dies or the disk really fills at a chosen device write of the simulated file system, with a "
                "seeded stdio buffer size) and cuts at rest.  Quick samples cuts at every kind of record position; thorough additionally "
                "enumerates every prefix length of generated files through every reader.  Oracle per call: returns, error code / exact "
                "reference values, handle table back to baseline, heap table clean, bounded seam events, then a recovery probe.  "
                "Fault enumeration is the right level because the quantifier is 'every prefix length, any number of calls': faults are "
                "enumerated per file, files are sampled.",
        "design_ref": "DESIGN.md 5.1",
        "note": "Trusted: glibc stdio over fopencookie == over a file; the checker's own GDSII record scanner (self-checked); sampled inputs. "
                "Exhaustive only per swept file (size bound), never over all files.",
        "technique": "deterministic simulation: seeded fault injection (torn/short/full-disk writes, cuts) on a simulated file system with handle and heap accounting",
    },
}

NA = {
    "C05": "boolean() is a pure function of two polygon lists and a scaling; no stream, clock, handle or shared state is on its path.",
    "C06": "Cell::get_*/flatten/copy_from transform caller-owned in-memory trees; one possible schedule, no fault to inject.",
    "C07": "FlexPath construction and to_polygons are in-memory geometry; its PATH-record clause is covered, as far as it is storage, by C01/C02.",
    "C08": "RobustPath evaluation and outlining are in-memory numerics; no environment interaction.",
    "C09": "bounding boxes and hulls are pure functions of a hierarchy; the cache is a caller-owned Map in one thread.",
    "C10": "transforms are pure algebra on element fields.",
    "C11": "Repetition::get_* and apply_repetition are pure functions of a small struct.",
    "C12": "fracture/slice are pure functions (their use by the GDSII writer is observed through C01's vertex-limit clause only).",
    "C13": "offset() is a pure function.",
    "C14": "contain*/area/perimeter are pure functions.",
    "C15": "curve sampling is pure numerics; Curve::last_ctrl is private per-object state with one schedule.",
    "C16": "rename/replace/remap/copy rewrite an in-memory graph; no clause depends on what a backing file does (that part is C17/C18).",
    "C19": "the number codecs are pure functions over an in-memory stream; end-of-stream inside a number is not part of the property.",
    "C20": "Map/Set/TagMap/StyleMap, property lists and sort are sequential data structures never shared between threads; stateful PBT, not simulation.",
}
PENDING = {}

def main():
    checks = []
    for pid, c in sorted(CLAIMED.items()):
        checks.append({
            "property_id": pid,
            "quick_cmd": "./check %s quick" % pid,
            "thorough_cmd": "./check %s thorough" % pid,
            "evidence_file": "evidence/%s.json" % pid,
            "replay_cmd_template": "./check --replay {path}",
            "engine": "gdsim",
            "level_claimed": {"category": c["category"], "text": c["text"], "design_ref": c["design_ref"]},
            "level_note": c["note"],
            "technique": c["technique"],
        })
    na = [{"property_id": k, "reason": v} for k, v in sorted({**NA, **{k: v for k, v in PENDING.items() if k not in CLAIMED}}.items())]
    hooks_commits = []
    hp = os.path.join(VERIF, "hooks_commits.txt")
    if os.path.exists(hp):
        hooks_commits = [l.strip() for l in open(hp) if l.strip()]
    m = {
        "version": 1,
        "setup_cmd": "python3 build.py asan plain",
        "hooks": {
            "guard": "GDSTK_VERIF_SIM",
            "enable": "every check compiles /repo/src/*.cpp itself with -DGDSTK_VERIF_SIM -DGDSTK_CUSTOM_ALLOCATOR (see build.py); "
                      "all other seams are link-time (-Wl,--wrap) and need no source change",
            "baseline_off_cmd": "cmake -G Ninja -S /repo -B /repo/_build -DCMAKE_BUILD_TYPE=RelWithDebInfo && cmake --build /repo/_build -j16 --target all examples && "
                                "ctest --test-dir /repo/_build -j8 --timeout 900",
            "source_commits": hooks_commits,
            "add_only": True,
        },
        "engines": [{
            "name": "gdsim", "path": "src/",
            "serves_properties": sorted(CLAIMED.keys()),
            "kind_free_text": "single-process deterministic simulator: SimFS (fopencookie streams behind -Wl,--wrap seams), SimHeap (GDSTK_CUSTOM_ALLOCATOR, "
                              "fixed-address arena), SimClock, seeded plan generator, plan executor with oracles, ddmin minimiser, fresh-process replay gate",
        }],
        "checks": checks,
        "not_applicable": na,
        "notes": "Exit codes of ./check: 0 held, 1 violation (VIOLATION line + replay file), 2 simulator fault, 3 build failure. "
                 "VERIF_SEED selects the batch; a replay file is the minimised plan and replays with ./check --replay <file>.",
    }
    json.dump(m, open(os.path.join(VERIF, "MANIFEST.json"), "w"), indent=1)

if __name__ == "__main__":
    main()
