#include "bridge.hpp"

#include <math.h>
#include <string.h>

using namespace gdstk;
using model::dg_t;

namespace bridge {

const char* error_name(ErrorCode e) {
    switch (e) {
        case ErrorCode::NoError: return "NoError";
        case ErrorCode::BooleanError: return "BooleanError";
        case ErrorCode::EmptyPath: return "EmptyPath";
        case ErrorCode::IntersectionNotFound: return "IntersectionNotFound";
        case ErrorCode::MissingReference: return "MissingReference";
        case ErrorCode::UnsupportedRecord: return "UnsupportedRecord";
        case ErrorCode::UnofficialSpecification: return "UnofficialSpecification";
        case ErrorCode::InvalidRepetition: return "InvalidRepetition";
        case ErrorCode::Overflow: return "Overflow";
        case ErrorCode::ChecksumError: return "ChecksumError";
        case ErrorCode::OutputFileOpenError: return "OutputFileOpenError";
        case ErrorCode::InputFileOpenError: return "InputFileOpenError";
        case ErrorCode::InputFileError: return "InputFileError";
        case ErrorCode::FileError: return "FileError";
        case ErrorCode::InvalidFile: return "InvalidFile";
        case ErrorCode::InsufficientMemory: return "InsufficientMemory";
        case ErrorCode::ZlibError: return "ZlibError";
    }
    return "?";
}

// ---------------------------------------------------------------- build
static Property* build_props(const std::vector<model::MProp>& ps) {
    Property* head = NULL;
    Property** tail = &head;
    for (auto& mp : ps) {
        Property* p = (Property*)allocate_clear(sizeof(Property));
        p->name = copy_string(mp.name.c_str(), NULL);
        PropertyValue** vt = &p->value;
        for (auto& mv : mp.vals) {
            PropertyValue* v = (PropertyValue*)allocate_clear(sizeof(PropertyValue));
            switch (mv.kind) {
                case 0:
                    v->type = PropertyType::UnsignedInteger;
                    v->unsigned_integer = mv.u;
                    break;
                case 1:
                    v->type = PropertyType::Integer;
                    v->integer = mv.i;
                    break;
                case 2:
                    v->type = PropertyType::Real;
                    v->real = mv.r;
                    break;
                default:
                    v->type = PropertyType::String;
                    v->count = mv.s.size();
                    v->bytes = (uint8_t*)allocate(mv.s.size() ? mv.s.size() : 1);
                    memcpy(v->bytes, mv.s.data(), mv.s.size());
            }
            *vt = v;
            vt = &v->next;
        }
        *tail = p;
        tail = &p->next;
    }
    return head;
}

static void build_rep(const model::MLib& m, const model::MRep& r, Repetition& out) {
    memset(&out, 0, sizeof(out));
    switch (r.type) {
        case model::REP_NONE: out.type = RepetitionType::None; break;
        case model::REP_RECT:
            out.type = RepetitionType::Rectangular;
            out.columns = r.cols;
            out.rows = r.rows;
            out.spacing = Vec2{user(m, r.sp.x), user(m, r.sp.y)};
            break;
        case model::REP_REGULAR:
            out.type = RepetitionType::Regular;
            out.columns = r.cols;
            out.rows = r.rows;
            out.v1 = Vec2{user(m, r.v1.x), user(m, r.v1.y)};
            out.v2 = Vec2{user(m, r.v2.x), user(m, r.v2.y)};
            break;
        case model::REP_EXPLICIT:
            out.type = RepetitionType::Explicit;
            for (auto& p : r.offs) out.offsets.append(Vec2{user(m, p.x), user(m, p.y)});
            break;
        case model::REP_EX:
        case model::REP_EY:
            out.type = r.type == model::REP_EX ? RepetitionType::ExplicitX : RepetitionType::ExplicitY;
            for (dg_t c : r.coords) out.coords.append(user(m, c));
            break;
    }
}

static EndType end_type_of(int e) {
    switch (e) {
        case model::END_ROUND: return EndType::Round;
        case model::END_HALF: return EndType::HalfWidth;
        case model::END_EXT: return EndType::Extended;
        case model::END_SMOOTH: return EndType::Smooth;
        default: return EndType::Flush;
    }
}

static JoinType join_type_of(int j) {
    switch (j) {
        case 1: return JoinType::Miter;
        case 2: return JoinType::Bevel;
        case 3: return JoinType::Round;
        default: return JoinType::Natural;
    }
}

Built build(const model::MLib& m) {
    Built b;
    b.alive = true;
    memset(&b.lib, 0, sizeof(b.lib));
    b.lib.init(m.name.c_str(), m.unit, m.precision);
    b.lib.properties = build_props(m.props);
    std::map<std::string, Cell*> cells;
    for (auto& mc : m.cells) {
        Cell* c = (Cell*)allocate_clear(sizeof(Cell));
        c->init(mc.name.c_str());
        b.lib.cell_array.append(c);
        cells[mc.name] = c;
    }
    for (auto& n : m.ext_cells) {
        Cell* c = (Cell*)allocate_clear(sizeof(Cell));
        c->init(n.c_str());
        b.ext.push_back(c);
        cells[n] = c;
    }
    const double lib_tol = 0.01 * (m.precision / m.unit);
    for (size_t ci = 0; ci < m.cells.size(); ci++) {
        const model::MCell& mc = m.cells[ci];
        Cell* c = b.lib.cell_array[ci];
        c->properties = build_props(mc.props);
        for (auto& mp : mc.polys) {
            Polygon* p = (Polygon*)allocate_clear(sizeof(Polygon));
            p->tag = make_tag(mp.layer, mp.dtype);
            for (auto& q : mp.pts) p->point_array.append(Vec2{user(m, q.x), user(m, q.y)});
            build_rep(m, mp.rep, p->repetition);
            p->properties = build_props(mp.props);
            c->polygon_array.append(p);
        }
        for (auto& mp : mc.paths) {
            if (mp.spine.empty()) continue;
            Tag tag = make_tag(mp.layer, mp.dtype);
            // built small and brought to size by scale(): lengths and offsets always follow, widths only when
            // they are set to scale (a power of two: every division and product is exact)
            const double k = mp.prescale > 0 ? mp.prescale : 1;
            auto U = [&](dg_t v) { return user(m, v) / k; };
            auto Wd = [&](dg_t v) { return mp.scale_width ? user(m, v) / k : user(m, v); };
            Vec2 start = Vec2{U(mp.spine[0].x), U(mp.spine[0].y)};
            const double tol = mp.tol_steps > 0 && mp.impl == 0 ? mp.tol_steps * (m.precision / m.unit) : lib_tol;
            if (mp.impl == 0) {
                FlexPath* p = (FlexPath*)allocate_clear(sizeof(FlexPath));
                uint64_t ne = (uint64_t)(mp.nelem < 1 ? 1 : mp.nelem);
                const bool varying = mp.voffs.size() == mp.spine.size() && ne == 1;
                if (varying) {
                    const double w0 = 2 * Wd(mp.hw), o0 = U(mp.voffs[0]);
                    p->init(start, 1, &w0, &o0, tol, &tag);
                } else {
                    p->init(start, ne, 2 * Wd(mp.hw), U(mp.sep), tol, tag);
                }
                Array<Vec2> pts = {};
                for (size_t i = 1; i < mp.spine.size(); i++) {
                    if (varying) {
                        // one segment at a time, each ending at its own offset from the spine
                        Array<Vec2> one = {};
                        one.append(Vec2{U(mp.spine[i].x), U(mp.spine[i].y)});
                        double off = U(mp.voffs[i]);
                        p->segment(one, NULL, &off, false);
                        one.clear();
                    } else {
                        pts.append(Vec2{U(mp.spine[i].x), U(mp.spine[i].y)});
                    }
                }
                for (uint64_t e = 0; e < ne; e++) {
                    // (set before the segments are added: the bends are built as the centre line grows)
                    if (mp.bend > 0) {
                        p->elements[e].bend_type = BendType::Circular;
                        p->elements[e].bend_radius = U(mp.bend);
                    }
                }
                if (pts.count > 0) {
                    if (!mp.simple && mp.taper > 0) {
                        std::vector<double> w(ne, 2 * Wd(mp.taper));
                        p->segment(pts, w.data(), NULL, false);  // widths change linearly towards these
                    } else {
                        p->segment(pts, NULL, NULL, false);
                    }
                }
                pts.clear();
                p->simple_path = mp.simple;
                p->scale_width = mp.scale_width;
                for (uint64_t e = 0; e < ne; e++) {
                    p->elements[e].end_type = end_type_of(mp.end);
                    p->elements[e].end_extensions = Vec2{U(mp.eu), U(mp.ev)};
                    p->elements[e].join_type = join_type_of(mp.join);
                }
                if (k != 1) p->scale(k, Vec2{0, 0});
                build_rep(m, mp.rep, p->repetition);
                p->properties = build_props(mp.props);
                c->flexpath_array.append(p);
            } else {
                RobustPath* p = (RobustPath*)allocate_clear(sizeof(RobustPath));
                uint64_t ne = (uint64_t)(mp.nelem < 1 ? 1 : mp.nelem);
                p->init(start, ne, 2 * Wd(mp.hw), U(mp.sep), tol, 1000, tag);
                for (size_t i = 1; i < mp.spine.size(); i++)
                    p->segment(Vec2{U(mp.spine[i].x), U(mp.spine[i].y)}, NULL, NULL,
                               false);
                p->simple_path = mp.simple;
                p->scale_width = mp.scale_width;
                for (uint64_t e = 0; e < ne; e++) {
                    p->elements[e].end_type = end_type_of(mp.end);
                    p->elements[e].end_extensions = Vec2{U(mp.eu), U(mp.ev)};
                }
                if (k != 1) p->scale(k, Vec2{0, 0});
                build_rep(m, mp.rep, p->repetition);
                p->properties = build_props(mp.props);
                c->robustpath_array.append(p);
            }
        }
        for (auto& ml : mc.labels) {
            Label* l = (Label*)allocate_clear(sizeof(Label));
            l->init(ml.text.c_str());
            l->tag = make_tag(ml.layer, ml.ttype);
            l->origin = Vec2{user(m, ml.origin.x), user(m, ml.origin.y)};
            l->anchor = (Anchor)ml.anchor;
            l->rotation = ml.rot_deg * (M_PI / 180.0);
            l->magnification = ml.mag;
            l->x_reflection = ml.xrefl;
            build_rep(m, ml.rep, l->repetition);
            l->properties = build_props(ml.props);
            c->label_array.append(l);
        }
        for (auto& mr : mc.refs) {
            Reference* r = (Reference*)allocate_clear(sizeof(Reference));
            auto it = cells.find(mr.target);
            if (mr.how == 0 && it != cells.end()) {
                r->init(it->second);
            } else {
                r->init(mr.target.c_str());
            }
            r->origin = Vec2{user(m, mr.origin.x), user(m, mr.origin.y)};
            r->rotation = mr.rot_deg * (M_PI / 180.0);
            r->magnification = mr.mag;
            r->x_reflection = mr.xrefl;
            build_rep(m, mr.rep, r->repetition);
            r->properties = build_props(mr.props);
            c->reference_array.append(r);
        }
    }
    return b;
}

void Built::destroy() {
    if (!alive) return;
    alive = false;
    lib.free_all();
    for (Cell* c : ext) {
        c->free_all();
        free_allocation(c);
    }
    ext.clear();
}

static model::MLib single_path_lib(const model::MLib& m, const model::MPath& p) {
    model::MLib one;
    one.name = "ONE";
    one.unit = m.unit;
    one.precision = m.precision;
    model::MCell c;
    c.name = "C";
    c.paths.push_back(p);
    one.cells.push_back(c);
    return one;
}

std::vector<std::vector<canon::IPt>> path_outline(const model::MLib& m, const model::MPath& p, uint64_t* max_raw_vertices, bool expand) {
    if (max_raw_vertices) *max_raw_vertices = 0;
    std::vector<std::vector<canon::IPt>> out;
    Built b = build(single_path_lib(m, p));
    Cell* c = b.lib.cell_array[0];
    Array<Polygon*> polys = {};
    Repetition* rep = NULL;
    if (c->flexpath_array.count) {
        c->flexpath_array[0]->to_polygons(false, 0, polys);
        rep = &c->flexpath_array[0]->repetition;
    } else if (c->robustpath_array.count) {
        c->robustpath_array[0]->to_polygons(false, 0, polys);
        rep = &c->robustpath_array[0]->repetition;
    }
    double scaling = m.unit / m.precision;
    for (uint64_t i = 0; i < polys.count; i++) {
        Polygon* poly = polys[i];
        if (max_raw_vertices && poly->point_array.count > *max_raw_vertices) *max_raw_vertices = poly->point_array.count;
        // to_polygons hands the path's repetition to every polygon; the writer expands it
        std::vector<Vec2> offs;
        Array<Vec2> o = {};
        if (expand && poly->repetition.type != RepetitionType::None) {
            poly->repetition.get_offsets(o);
            for (uint64_t k = 0; k < o.count; k++) offs.push_back(o[k]);
            o.clear();
        } else {
            offs.push_back(Vec2{0, 0});
        }
        for (auto& off : offs) {
            std::vector<canon::IPt> pts;
            for (uint64_t k = 0; k < poly->point_array.count; k++)
                pts.push_back(canon::IPt{(int64_t)lround((off.x + poly->point_array[k].x) * scaling),
                                         (int64_t)lround((off.y + poly->point_array[k].y) * scaling)});
            canon::dedup(pts, true);
            if (pts.size() >= 3) out.push_back(pts);
        }
        poly->clear();
        free_allocation(poly);
    }
    (void)rep;
    polys.clear();
    b.destroy();
    return out;
}

std::vector<std::vector<canon::IPt>> robust_centres(const model::MLib& m, const model::MPath& p, bool expand) {
    std::vector<std::vector<canon::IPt>> out;
    Built b = build(single_path_lib(m, p));
    Cell* c = b.lib.cell_array[0];
    if (c->robustpath_array.count) {
        RobustPath* rp = c->robustpath_array[0];
        Array<Vec2> pts = {};
        rp->element_center(rp->elements, pts);
        double scaling = m.unit / m.precision;
        std::vector<model::Pt> offs = expand ? canon::rep_offsets(p.rep) : std::vector<model::Pt>{model::Pt{0, 0}};
        for (auto& off : offs) {
            double ox = user(m, off.x), oy = user(m, off.y);
            std::vector<canon::IPt> v;
            for (uint64_t k = 0; k < pts.count; k++)
                v.push_back(canon::IPt{(int64_t)lround((pts[k].x + ox) * scaling), (int64_t)lround((pts[k].y + oy) * scaling)});
            out.push_back(v);
        }
        pts.clear();
    }
    b.destroy();
    return out;
}

std::vector<std::vector<canon::IPt>> flex_centres(const model::MLib& m, const model::MPath& p, bool expand) {
    std::vector<std::vector<canon::IPt>> out;
    Built b = build(single_path_lib(m, p));
    Cell* c = b.lib.cell_array[0];
    if (c->flexpath_array.count) {
        FlexPath* fp = c->flexpath_array[0];
        // (to_gds first drops points closer than the tolerance, 0.01 grid steps here: nothing in these models)
        double scaling = m.unit / m.precision;
        std::vector<model::Pt> offs = expand ? canon::rep_offsets(p.rep) : std::vector<model::Pt>{model::Pt{0, 0}};
        for (uint64_t e = 0; e < fp->num_elements; e++) {
            Array<Vec2> pts = {};
            fp->element_center(fp->elements + e, pts);
            for (auto& off : offs) {
                double ox = user(m, off.x), oy = user(m, off.y);
                std::vector<canon::IPt> v;
                for (uint64_t k = 0; k < pts.count; k++)
                    v.push_back(canon::IPt{(int64_t)lround((pts[k].x + ox) * scaling), (int64_t)lround((pts[k].y + oy) * scaling)});
                out.push_back(v);
            }
            pts.clear();
        }
    }
    b.destroy();
    return out;
}

// ---------------------------------------------------------------- extract
std::vector<model::MProp> props_to_model(const Property* p) {
    std::vector<model::MProp> r;
    for (; p; p = p->next) {
        model::MProp mp;
        mp.name = p->name ? p->name : "";
        for (const PropertyValue* v = p->value; v; v = v->next) {
            model::MVal mv;
            switch (v->type) {
                case PropertyType::UnsignedInteger:
                    mv.kind = 0;
                    mv.u = v->unsigned_integer;
                    break;
                case PropertyType::Integer:
                    mv.kind = 1;
                    mv.i = v->integer;
                    break;
                case PropertyType::Real:
                    mv.kind = 2;
                    mv.r = v->real;
                    break;
                case PropertyType::String:
                    mv.kind = 3;
                    mv.s.assign((const char*)v->bytes, (size_t)v->count);
                    break;
            }
            mp.vals.push_back(mv);
        }
        r.push_back(mp);
    }
    return r;
}

struct Gridder {
    double scale;
    bool offgrid = false;
    int64_t g(double x) {
        double v = x * scale;
        double r = round(v);
        if (fabs(v - r) > 1e-3 && fabs(v - r) > 1e-9 * fabs(v)) offgrid = true;
        return (int64_t)llround(v);
    }
    canon::IPt g(const Vec2& p) { return canon::IPt{g(p.x), g(p.y)}; }
};

static bool rep_type_valid(const Repetition& r);
static std::vector<Vec2> rep_offsets(const Repetition& r) {
    std::vector<Vec2> o;
    if (!rep_type_valid(r)) return {Vec2{0, 0}};  // reported by the caller as an INVALID repetition
    switch (r.type) {
        case RepetitionType::None: o.push_back(Vec2{0, 0}); break;
        case RepetitionType::Rectangular:
            for (uint64_t i = 0; i < r.columns; i++)
                for (uint64_t j = 0; j < r.rows; j++)
                    o.push_back(Vec2{(double)i * r.spacing.x, (double)j * r.spacing.y});
            break;
        case RepetitionType::Regular:
            for (uint64_t i = 0; i < r.columns; i++)
                for (uint64_t j = 0; j < r.rows; j++)
                    o.push_back(Vec2{(double)i * r.v1.x + (double)j * r.v2.x,
                                     (double)i * r.v1.y + (double)j * r.v2.y});
            break;
        case RepetitionType::Explicit:
            o.push_back(Vec2{0, 0});
            for (uint64_t i = 0; i < r.offsets.count; i++) o.push_back(r.offsets[i]);
            break;
        case RepetitionType::ExplicitX:
            o.push_back(Vec2{0, 0});
            for (uint64_t i = 0; i < r.coords.count; i++) o.push_back(Vec2{r.coords[i], 0});
            break;
        case RepetitionType::ExplicitY:
            o.push_back(Vec2{0, 0});
            for (uint64_t i = 0; i < r.coords.count; i++) o.push_back(Vec2{0, r.coords[i]});
            break;
    }
    if (o.empty()) o.push_back(Vec2{0, 0});  // zero columns/rows: the element itself still exists
    return o;
}

static bool rep_type_valid(const Repetition& r) {
    switch (r.type) {
        case RepetitionType::Rectangular:
        case RepetitionType::Regular:
            // counts no file can have produced (a negative 16-bit count read as unsigned, say)
            return r.columns <= 100000000 && r.rows <= 100000000 && r.columns * r.rows <= 100000000;
        case RepetitionType::None:
        case RepetitionType::Explicit:
        case RepetitionType::ExplicitX:
        case RepetitionType::ExplicitY:
            return true;
    }
    return false;
}

static std::vector<canon::IPt> rep_grid(const Repetition& r, Gridder& G) {
    std::vector<canon::IPt> v;
    for (auto& o : rep_offsets(r)) v.push_back(G.g(o));
    return v;
}

static int end_kind(EndType e) {
    switch (e) {
        case EndType::Flush: return model::END_FLUSH;
        case EndType::Round: return model::END_ROUND;
        case EndType::HalfWidth: return model::END_HALF;
        case EndType::Extended: return model::END_EXT;
        case EndType::Smooth: return model::END_SMOOTH;
        default: return model::END_FLUSH;
    }
}

canon::CLib extract(const Library& lib, const ExtractOptions& opt) {
    canon::CLib c;
    canon::Mode mode = opt.mode;
    c.name = lib.name ? lib.name : "";
    c.unit = lib.unit;
    c.precision = lib.precision;
    Gridder G{lib.unit / lib.precision};
    if (mode == canon::OAS) c.props.push_back(canon::props_str(props_to_model(lib.properties), canon::OAS));
    std::set<std::string> own_names;
    std::set<const Cell*> own_cells;
    for (uint64_t ci = 0; ci < lib.cell_array.count; ci++) {
        own_cells.insert(lib.cell_array[ci]);
        if (lib.cell_array[ci]->name) own_names.insert(lib.cell_array[ci]->name);
    }
    for (uint64_t ci = 0; ci < lib.cell_array.count; ci++) {
        const Cell* cell = lib.cell_array[ci];
        canon::CCell cc;
        std::string cname = cell->name ? cell->name : "";
        const std::set<uint64_t>* rt = nullptr;
        auto rit = opt.region_tags.find(cname);
        if (rit != opt.region_tags.end()) rt = &rit->second;
        for (uint64_t i = 0; i < cell->polygon_array.count; i++) {
            const Polygon* p = cell->polygon_array[i];
            if (!rep_type_valid(p->repetition)) cc.polys.push_back("INVALID repetition (type or counts) in a loaded polygon");
            std::vector<canon::IPt> pts;
            for (uint64_t k = 0; k < p->point_array.count; k++) pts.push_back(G.g(p->point_array[k]));
            if (rt && rt->count(p->tag)) {
                for (auto& o : rep_grid(p->repetition, G)) {
                    std::vector<canon::IPt> q = pts;
                    for (auto& v : q) {
                        v.x += o.x;
                        v.y += o.y;
                    }
                    canon::dedup(q, true);
                    if (q.size() >= 3) cc.region[p->tag].push_back(q);
                }
                continue;
            }
            bool ok;
            std::string line =
                canon::poly_line(get_layer(p->tag), get_type(p->tag), pts, rep_grid(p->repetition, G),
                                 canon::props_str(props_to_model(p->properties), mode), ok);
            if (ok) {
                cc.polys.push_back(line);
                cc.poly_pts[line] = pts;
            }
        }
        for (uint64_t i = 0; i < cell->flexpath_array.count; i++) {
            const FlexPath* p = cell->flexpath_array[i];
            if (p->num_elements != 1 || !p->simple_path) {
                cc.paths.push_back("UNEXPECTED non-simple flexpath in loaded cell");
                continue;
            }
            const FlexPathElement* el = p->elements;
            if (!rep_type_valid(p->repetition)) cc.paths.push_back("INVALID repetition (type or counts) in a loaded path");
            std::vector<canon::IPt> sp;
            for (uint64_t k = 0; k < p->spine.point_array.count; k++)
                sp.push_back(G.g(p->spine.point_array[k]));
            cc.close_path_vertices += canon::close_pairs(sp);
            {
                // what the next save will do to this centre line, computed here with the comparison the
                // documented behaviour rests on (strictly closer than the tolerance, in double arithmetic):
                // distinguishes the known loss of a vertex through rounding noise from any other loss
                const double tol_sq = p->spine.tolerance * p->spine.tolerance;
                std::vector<Vec2> v(p->spine.point_array.items, p->spine.point_array.items + p->spine.point_array.count);
                for (size_t k = 1; k < v.size();) {
                    if ((v[k] - v[k - 1]).length_sq() < tol_sq) {
                        v.erase(v.begin() + k);
                        cc.strict_tolerance_drops++;
                    } else {
                        k++;
                    }
                }
            }
            {
                char tb[40];
                snprintf(tb, sizeof tb, "%.6g", p->spine.tolerance * G.scale);
                cc.path_tolerances.insert(tb);
            }
            double hw = el->half_width_and_offset.count ? el->half_width_and_offset[0].u : 0;
            int64_t w2 = G.g(2 * hw);
            bool ok;
            std::string line = canon::path_line(
                mode, get_layer(el->tag), get_type(el->tag), sp, w2, end_kind(el->end_type),
                G.g(el->end_extensions.u), G.g(el->end_extensions.v), p->scale_width,
                rep_grid(p->repetition, G), canon::props_str(props_to_model(p->properties), mode), ok);
            if (ok) cc.paths.push_back(line);
        }
        for (uint64_t i = 0; i < cell->robustpath_array.count; i++)
            cc.paths.push_back("UNEXPECTED robustpath in loaded cell");
        for (uint64_t i = 0; i < cell->label_array.count; i++) {
            const Label* l = cell->label_array[i];
            if (!rep_type_valid(l->repetition)) cc.labels.push_back("INVALID repetition (type or counts) in a loaded label");
            cc.labels.push_back(canon::label_line(
                mode, get_layer(l->tag), get_type(l->tag), l->text ? l->text : "", G.g(l->origin),
                (int)l->anchor, l->rotation * (180.0 / M_PI), l->magnification, l->x_reflection,
                rep_grid(l->repetition, G), canon::props_str(props_to_model(l->properties), mode)));
        }
        for (uint64_t i = 0; i < cell->reference_array.count; i++) {
            const Reference* r = cell->reference_array[i];
            if (!rep_type_valid(r->repetition)) cc.refs.push_back("INVALID repetition (type or counts) in a loaded reference");
            std::string target;
            switch (r->type) {
                case ReferenceType::Cell: target = r->cell && r->cell->name ? r->cell->name : ""; break;
                case ReferenceType::RawCell:
                    target = r->rawcell && r->rawcell->name ? r->rawcell->name : "";
                    break;
                case ReferenceType::Name: target = r->name ? r->name : ""; break;
            }
            // a loaded reference is attached to its cell exactly when the library has a cell of that name
            if (r->type == ReferenceType::Name) {
                if (own_names.count(target))
                    cc.refs.push_back("UNRESOLVED reference to " + target + ", a cell of the loaded library");
            } else if (r->type == ReferenceType::Cell) {
                if (!own_cells.count(r->cell)) cc.refs.push_back("FOREIGN cell attached to the reference to " + target);
            }
            std::string props = canon::props_str(props_to_model(r->properties), mode);
            for (auto& o : rep_offsets(r->repetition)) {
                double x = (r->origin.x + o.x) * G.scale * 1024.0;
                double y = (r->origin.y + o.y) * G.scale * 1024.0;
                cc.refs.push_back(canon::ref_line(target, r->x_reflection,
                                                  r->rotation * (180.0 / M_PI), r->magnification,
                                                  (int64_t)llround(x), (int64_t)llround(y), props));
            }
        }
        if (mode == canon::OAS)
            cc.props.push_back(canon::props_str(props_to_model(cell->properties), canon::OAS));
        if (G.offgrid) {
            // OASIS CIRCLE records re-load as sampled polygons whose vertices are not on the grid
            if (mode == canon::GDS) cc.polys.push_back("OFFGRID coordinate found in loaded cell");
            G.offgrid = false;
        }
        std::sort(cc.polys.begin(), cc.polys.end());
        std::sort(cc.paths.begin(), cc.paths.end());
        std::sort(cc.labels.begin(), cc.labels.end());
        std::sort(cc.refs.begin(), cc.refs.end());
        if (c.cells.count(cname)) cname += "#dup" + std::to_string(ci);
        c.cells[cname] = cc;
    }
    return c;
}

StdProps standard_props(const Library& lib) {
    StdProps s;
    for (auto& p : props_to_model(lib.properties)) {
        if (!canon::is_standard_prop(p.name)) continue;
        if (p.name == "S_TOP_CELL") {
            for (auto& v : p.vals)
                if (v.kind == 3) s.top_cells.push_back(v.s);
        } else {
            s.lib[p.name] = p.vals;
        }
    }
    for (uint64_t ci = 0; ci < lib.cell_array.count; ci++) {
        const Cell* cell = lib.cell_array[ci];
        for (auto& p : props_to_model(cell->properties))
            if (canon::is_standard_prop(p.name)) s.cell[cell->name ? cell->name : ""][p.name] = p.vals;
    }
    return s;
}

}  // namespace bridge
