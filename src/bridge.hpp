// Bridge between the abstract model and gdstk's public structs: build(M) -> Library, extract(Library) -> canon.
#ifndef GDSIM_BRIDGE_HPP
#define GDSIM_BRIDGE_HPP

#include <gdstk/gdstk.hpp>

#include <map>
#include <set>
#include <string>
#include <vector>

#include "canon.hpp"
#include "model.hpp"

namespace bridge {

struct Built {
    gdstk::Library lib;
    std::vector<gdstk::Cell*> ext;  // cells that are referenced by pointer but not part of the library
    bool alive = false;
    void destroy();
};

// user-unit value of a decigrid coordinate
inline double user(const model::MLib& m, model::dg_t v) {
    return (double)v * ((m.precision / m.unit) / 10.0);
}

Built build(const model::MLib& m);

struct ExtractOptions {
    canon::Mode mode = canon::GDS;
    // polygons with these tags are collected as regions instead of canonical lines (per cell)
    std::map<std::string, std::set<uint64_t>> region_tags;
};

canon::CLib extract(const gdstk::Library& lib, const ExtractOptions& opt);

// standard (S_*) properties as written by write_oas, for the "states the truth" clauses
struct StdProps {
    std::map<std::string, std::vector<model::MVal>> lib;                             // name -> values (last wins)
    std::vector<std::string> top_cells;                                              // all S_TOP_CELL values
    std::map<std::string, std::map<std::string, std::vector<model::MVal>>> cell;     // cell -> name -> values
};
StdProps standard_props(const gdstk::Library& lib);

std::vector<model::MProp> props_to_model(const gdstk::Property* p);

const char* error_name(gdstk::ErrorCode e);

// what the GDSII writer is entitled to emit for a path that is not a plain PATH record: gdstk's own
// outline of the in-memory object (to_polygons), rounded to the grid the way the writer rounds,
// one set per repetition offset.  Whether that outline is geometrically right is C07/C08's business.
std::vector<std::vector<canon::IPt>> path_outline(const model::MLib& m, const model::MPath& p, uint64_t* max_raw_vertices = nullptr, bool expand = true);
// centre line of a simple RobustPath as the writer samples it (element_center), rounded likewise
std::vector<std::vector<canon::IPt>> robust_centres(const model::MLib& m, const model::MPath& p, bool expand = true);
// centre lines of the elements of a simple FlexPath with several elements, as the writer computes them
std::vector<std::vector<canon::IPt>> flex_centres(const model::MLib& m, const model::MPath& p, bool expand = true);

}  // namespace bridge

#endif
