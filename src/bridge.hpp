// Bridge between the abstract model and gdstk's public structs: build(M) -> Library, extract(Library) -> canon.
#ifndef GDSIM_BRIDGE_HPP
#define GDSIM_BRIDGE_HPP

#include <gdstk/gdstk.hpp>

#include <map>
#include <set>
#include <string>
#include <vector>

#include "canon.hpp"
#include "model.hpp"

namespace bridge {

struct Built {
    gdstk::Library lib;
    std::vector<gdstk::Cell*> ext;  // cells that are referenced by pointer but not part of the library
    bool alive = false;
    void destroy();
};

// user-unit value of a decigrid coordinate
inline double user(const model::MLib& m, model::dg_t v) {
    return (double)v * ((m.precision / m.unit) / 10.0);
}

Built build(const model::MLib& m);

struct ExtractOptions {
    canon::Mode mode = canon::GDS;
    // polygons with these tags are collected as regions instead of canonical lines (per cell)
    std::map<std::string, std::set<uint64_t>> region_tags;
};

canon::CLib extract(const gdstk::Library& lib, const ExtractOptions& opt);

// standard (S_*) properties as written by write_oas, for the "states the truth" clauses
struct StdProps {
    std::map<std::string, std::vector<model::MVal>> lib;                             // name -> values (last wins)
    std::vector<std::string> top_cells;                                              // all S_TOP_CELL values
    std::map<std::string, std::map<std::string, std::vector<model::MVal>>> cell;     // cell -> name -> values
};
StdProps standard_props(const gdstk::Library& lib);

std::vector<model::MProp> props_to_model(const gdstk::Property* p);

const char* error_name(gdstk::ErrorCode e);

}  // namespace bridge

#endif
