// Canonical form of a layout on the integer precision grid, produced from the model M (with the
// representational changes each format is allowed to make) and from gdstk's in-memory Library.
// Every element becomes one line of text; a cell is a sorted multiset of lines per element kind.
#ifndef GDSIM_CANON_HPP
#define GDSIM_CANON_HPP

#include <math.h>
#include <stdint.h>

#include <algorithm>
#include <map>
#include <set>
#include <string>
#include <vector>

#include "model.hpp"

namespace canon {

using model::dg_t;

enum Mode { GDS = 0, OAS = 1 };

struct IPt {
    int64_t x, y;
    bool operator<(const IPt& o) const { return x != o.x ? x < o.x : y < o.y; }
    bool operator==(const IPt& o) const { return x == o.x && y == o.y; }
    bool operator!=(const IPt& o) const { return !(*this == o); }
};

struct CCell {
    std::vector<std::string> polys, paths, labels, refs, props;
    int strict_tolerance_drops = 0;  // gdstk side: vertices closer to their predecessor than the path's tolerance (strict, in doubles)
    int close_path_vertices = 0;  // consecutive, distinct path vertices at most one grid step apart (raw lists)
    std::map<std::string, std::vector<IPt>> poly_pts;  // polygon line -> its (normalised) vertices
    std::set<std::string> path_tolerances;  // curve tolerance of loaded paths, in grid steps (6 significant digits)
    // polygons excluded from `polys` because they are compared as regions: tag -> polygons
    std::map<uint64_t, std::vector<std::vector<IPt>>> region;
};

struct CLib {
    std::string name;
    double unit = 0, precision = 0;
    std::map<std::string, CCell> cells;
    std::vector<std::string> props;
};

// round a decigrid value to the grid; never a tie by construction (last digit != 5)
inline int64_t rgrid(dg_t v) {
    int64_t q = v / 10, r = v % 10;
    if (r >= 5) q++;
    if (r <= -5) q--;
    return q;
}
inline IPt rgrid(const model::Pt& p) { return IPt{rgrid(p.x), rgrid(p.y)}; }

inline void append_pt(std::string& s, const IPt& p) {
    s += std::to_string(p.x);
    s += ',';
    s += std::to_string(p.y);
}

// remove consecutive duplicates (cyclic if closed)
inline void dedup(std::vector<IPt>& v, bool closed) {
    std::vector<IPt> r;
    for (auto& p : v)
        if (r.empty() || r.back() != p) r.push_back(p);
    if (closed)
        while (r.size() > 1 && r.front() == r.back()) r.pop_back();
    v.swap(r);
}

inline __int128 area2(const std::vector<IPt>& v) {
    __int128 a = 0;
    size_t n = v.size();
    for (size_t i = 0; i < n; i++) {
        const IPt& p = v[i];
        const IPt& q = v[(i + 1) % n];
        a += (__int128)p.x * q.y - (__int128)q.x * p.y;
    }
    return a;
}

// canonical vertex cycle: consecutive duplicates removed, counter-clockwise, lexicographically
// smallest rotation.  Returns false when fewer than 3 vertices remain.
inline bool norm_cycle(std::vector<IPt>& v) {
    dedup(v, true);
    if (v.size() < 3) return false;
    __int128 a = area2(v);
    std::vector<std::vector<IPt>> cands;
    auto rotations = [&](const std::vector<IPt>& w) {
        IPt mn = *std::min_element(w.begin(), w.end());
        for (size_t i = 0; i < w.size(); i++)
            if (w[i] == mn) {
                std::vector<IPt> r(w.begin() + i, w.end());
                r.insert(r.end(), w.begin(), w.begin() + i);
                cands.push_back(r);
            }
    };
    if (a >= 0) rotations(v);
    if (a <= 0) {
        std::vector<IPt> w(v.rbegin(), v.rend());
        rotations(w);
    }
    v = *std::min_element(cands.begin(), cands.end());
    return true;
}

inline int close_pairs(const std::vector<IPt>& v) {
    int n = 0;
    for (size_t i = 1; i < v.size(); i++) {
        __int128 dx = v[i].x - v[i - 1].x, dy = v[i].y - v[i - 1].y;
        __int128 d2 = dx * dx + dy * dy;
        if (d2 > 0 && d2 <= 1) n++;
    }
    return n;
}

inline std::string pts_str(const std::vector<IPt>& v) {
    std::string s = "[";
    for (size_t i = 0; i < v.size(); i++) {
        if (i) s += ' ';
        append_pt(s, v[i]);
    }
    s += ']';
    return s;
}

// ---------------------------------------------------------------- repetition (model side)
// offsets of all instances, the (0,0) original included, in decigrid units
inline std::vector<model::Pt> rep_offsets(const model::MRep& r) {
    std::vector<model::Pt> o;
    switch (r.type) {
        case model::REP_NONE: o.push_back(model::Pt{0, 0}); break;
        case model::REP_RECT:
            for (uint64_t i = 0; i < r.cols; i++)
                for (uint64_t j = 0; j < r.rows; j++)
                    o.push_back(model::Pt{(dg_t)i * r.sp.x, (dg_t)j * r.sp.y});
            break;
        case model::REP_REGULAR:
            for (uint64_t i = 0; i < r.cols; i++)
                for (uint64_t j = 0; j < r.rows; j++)
                    o.push_back(model::Pt{(dg_t)i * r.v1.x + (dg_t)j * r.v2.x,
                                          (dg_t)i * r.v1.y + (dg_t)j * r.v2.y});
            break;
        case model::REP_EXPLICIT:
            o.push_back(model::Pt{0, 0});
            for (auto& p : r.offs) o.push_back(p);
            break;
        case model::REP_EX:
            o.push_back(model::Pt{0, 0});
            for (dg_t c : r.coords) o.push_back(model::Pt{c, 0});
            break;
        case model::REP_EY:
            o.push_back(model::Pt{0, 0});
            for (dg_t c : r.coords) o.push_back(model::Pt{0, c});
            break;
    }
    return o;
}

inline std::string rep_str(std::vector<IPt> offs) {
    if (offs.size() <= 1) return "";
    std::sort(offs.begin(), offs.end());
    std::string s = " rep{";
    for (size_t i = 0; i < offs.size(); i++) {
        if (i) s += ' ';
        append_pt(s, offs[i]);
    }
    s += '}';
    return s;
}

// ---------------------------------------------------------------- properties
static const char* const STANDARD_PROPS[] = {"S_MAX_SIGNED_INTEGER_WIDTH",
                                             "S_MAX_UNSIGNED_INTEGER_WIDTH",
                                             "S_MAX_STRING_LENGTH",
                                             "S_POLYGON_MAX_VERTICES",
                                             "S_PATH_MAX_VERTICES",
                                             "S_TOP_CELL",
                                             "S_BOUNDING_BOXES_AVAILABLE",
                                             "S_BOUNDING_BOX",
                                             "S_CELL_OFFSET"};
inline bool is_standard_prop(const std::string& n) {
    for (const char* s : STANDARD_PROPS)
        if (n == s) return true;
    return false;
}

inline std::string bytes_str(const std::string& b) {
    std::string s = "'";
    static const char* H = "0123456789abcdef";
    for (unsigned char c : b) {
        if (c >= 0x20 && c <= 0x7e && c != '\'' && c != '\\')
            s += (char)c;
        else {
            s += "\\x";
            s += H[c >> 4];
            s += H[c & 15];
        }
    }
    s += "'";
    return s;
}

inline std::string real_str(double r) {
    char buf[40];
    if (r == 0) r = 0;  // -0 == +0
    snprintf(buf, sizeof buf, "%.12g", r);
    return buf;
}

inline bool is_gds_prop(const model::MProp& p) {
    return p.name == "S_GDS_PROPERTY" && p.vals.size() >= 2 && p.vals[0].kind == 0 &&
           p.vals[1].kind == 3;
}

inline std::string strip_nuls(std::string s) {
    size_t n = s.find('\0');
    if (n != std::string::npos) s.resize(n);
    return s;
}

inline std::string props_str(const std::vector<model::MProp>& ps, Mode mode) {
    std::vector<std::string> items;
    for (auto& p : ps) {
        if (mode == GDS) {
            if (!is_gds_prop(p)) continue;
            items.push_back("G" + std::to_string(p.vals[0].u & 0xffff) + "=" +
                            bytes_str(strip_nuls(p.vals[1].s)));
        } else {
            if (is_standard_prop(p.name)) continue;
            std::string s = p.name + ":(";
            for (size_t i = 0; i < p.vals.size(); i++) {
                const model::MVal& v = p.vals[i];
                if (i) s += ' ';
                switch (v.kind) {
                    case 0: s += "u" + std::to_string(v.u); break;
                    case 1: s += "i" + std::to_string(v.i); break;
                    case 2: {
                        // a real property value is a 64-bit float in both formats' data models: bit for bit
                        // (only the sign of zero is not a value of its own)
                        char rb[40];
                        double rv = v.r == 0 ? 0.0 : v.r;
                        snprintf(rb, sizeof rb, "%.17g", rv);
                        s += std::string("r") + rb;
                    } break;
                    default: s += "s" + bytes_str(v.s);
                }
            }
            s += ")";
            items.push_back(s);
        }
    }
    if (items.empty()) return "";
    std::sort(items.begin(), items.end());
    std::string s = " props{";
    for (size_t i = 0; i < items.size(); i++) {
        if (i) s += "; ";
        s += items[i];
    }
    s += "}";
    return s;
}

// ---------------------------------------------------------------- transforms
inline int64_t rot_q(double deg) {  // micro-degrees in [0, 360e6)
    double m = fmod(deg, 360.0);
    if (m < 0) m += 360.0;
    int64_t q = llround(m * 1e6);
    if (q >= 360000000LL) q -= 360000000LL;
    return q;
}
// magnifications travel as reals that hold every double exactly: compared to the last bit
inline std::string mag_q(double mag) {
    char b[40];
    snprintf(b, sizeof b, "%.17g", mag);
    return b;
}

inline std::string tag_str(uint32_t layer, uint32_t type) {
    return "L" + std::to_string(layer) + "/" + std::to_string(type);
}

static const char* const END_NAMES[] = {"F", "R", "H", "X", "R"};

// ---------------------------------------------------------------- element lines (shared by the model side and the gdstk side)
inline std::string poly_line(uint32_t layer, uint32_t dtype, std::vector<IPt> pts,
                             const std::vector<IPt>& rep, const std::string& props, bool& ok) {
    ok = norm_cycle(pts);
    return "P " + tag_str(layer, dtype) + " " + pts_str(pts) + rep_str(rep) + props;
}

inline std::string path_line(Mode mode, uint32_t layer, uint32_t dtype, std::vector<IPt> spine,
                             int64_t w2, int end, int64_t eu, int64_t ev, bool scale_width,
                             const std::vector<IPt>& rep, const std::string& props, bool& ok) {
    dedup(spine, false);
    // the centre line is a curve, not a vertex list: a vertex in the interior of a straight run
    // (exactly collinear, same direction) carries no information
    {
        std::vector<IPt> r;
        for (auto& p : spine) {
            while (r.size() >= 2) {
                const IPt& a = r[r.size() - 2];
                const IPt& b = r[r.size() - 1];
                __int128 cr = (__int128)(b.x - a.x) * (p.y - b.y) - (__int128)(b.y - a.y) * (p.x - b.x);
                __int128 dt = (__int128)(b.x - a.x) * (p.x - b.x) + (__int128)(b.y - a.y) * (p.y - b.y);
                if (cr == 0 && dt > 0)
                    r.pop_back();
                else
                    break;
            }
            r.push_back(p);
        }
        spine.swap(r);
    }
    ok = spine.size() >= 2;
    std::string s = "W " + tag_str(layer, dtype) + " w2=" + std::to_string(w2);
    if (mode == OAS) {
        // only the extensions survive in OASIS: flush = (0,0), half-width = (hw,hw)
        if (end == model::END_FLUSH || end == model::END_ROUND || end == model::END_SMOOTH) {
            eu = ev = 0;
        } else if (end == model::END_HALF) {
            eu = ev = w2 / 2;
        }
        s += " ext=(" + std::to_string(eu) + "," + std::to_string(ev) + ")";
    } else {
        s += std::string(" end=") + END_NAMES[end];
        if (end == model::END_EXT) s += "(" + std::to_string(eu) + "," + std::to_string(ev) + ")";
        // a zero WIDTH carries no sign: "absolute width" cannot be told apart there
        s += (scale_width || w2 == 0) ? " sw=1" : " sw=0";
    }
    s += " " + pts_str(spine) + rep_str(rep) + props;
    return s;
}

inline std::string label_line(Mode mode, uint32_t layer, uint32_t ttype, const std::string& text,
                              IPt origin, int anchor, double rot_deg, double mag, bool xrefl,
                              const std::vector<IPt>& rep, const std::string& props) {
    std::string s = "T " + tag_str(layer, ttype) + " " + bytes_str(text) + " @";
    append_pt(s, origin);
    if (mode == GDS) {
        s += " a=" + std::to_string(anchor) + " rot=" + std::to_string(rot_q(rot_deg)) +
             " mag=" + mag_q(mag) + " xr=" + (xrefl ? "1" : "0");
    }
    s += rep_str(rep) + props;
    return s;
}

// one line per placed instance; position in 1/1024 of a grid step
inline std::string ref_line(const std::string& target, bool xrefl, double rot_deg, double mag,
                            int64_t x1024, int64_t y1024, const std::string& props) {
    std::string s = "R ->" + bytes_str(target) + " xr=" + (xrefl ? "1" : "0") +
                    " rot=" + std::to_string(rot_q(rot_deg)) + " mag=" + mag_q(mag) +
                    " @";
    auto fix = [](int64_t v) {
        std::string r = std::to_string(v / 1024);
        int64_t f = v % 1024;
        if (v < 0 && f != 0) {
            // keep a readable, unambiguous form for off-grid negatives
            return std::to_string(v) + "/1024";
        }
        if (f) r += "+" + std::to_string(f) + "/1024";
        return r;
    };
    s += fix(x1024) + "," + fix(y1024) + props;
    return s;
}

// ---------------------------------------------------------------- model -> canonical form
struct Options {
    Mode mode = GDS;
    uint64_t max_points = 0;  // GDS: polygons above this are region-compared (when > 4)
};

inline std::vector<IPt> rep_grid(const model::MRep& r) {
    std::vector<IPt> v;
    for (auto& o : rep_offsets(r)) v.push_back(rgrid(o));
    return v;
}

inline CLib from_model(const model::MLib& m, const Options& opt) {
    CLib c;
    c.name = m.name;
    c.unit = m.unit;
    c.precision = m.precision;
    Mode mode = opt.mode;
    if (mode == OAS) c.props.push_back(props_str(m.props, OAS));
    for (auto& mc : m.cells) {
        CCell cc;
        for (auto& p : mc.polys) {
            std::string props = props_str(p.props, mode);
            bool region = mode == GDS && opt.max_points > 4 && p.pts.size() > opt.max_points;
            std::vector<model::Pt> offs = rep_offsets(p.rep);
            if (mode == GDS || region) {
                for (auto& o : offs) {
                    std::vector<IPt> pts;
                    for (auto& q : p.pts) pts.push_back(rgrid(model::Pt{q.x + o.x, q.y + o.y}));
                    if (region || p.hint == 2) {
                        dedup(pts, true);
                        if (pts.size() >= 3)
                            cc.region[((uint64_t)p.dtype << 32) | p.layer].push_back(pts);
                        continue;
                    }
                    bool ok;
                    std::string line = poly_line(p.layer, p.dtype, pts, {}, props, ok);
                    if (ok) cc.polys.push_back(line);
                }
            } else {
                std::vector<IPt> pts;
                for (auto& q : p.pts) pts.push_back(rgrid(q));
                bool ok;
                std::string line = poly_line(p.layer, p.dtype, pts, rep_grid(p.rep), props, ok);
                if (ok) {
                    cc.polys.push_back(line);
                    cc.poly_pts[line] = pts;
                }
            }
        }
        for (auto& p : mc.paths) {
            if (!p.simple) continue;  // region-compared by the scenario (needs gdstk's own outline)
            if (p.nelem > 1 && p.bend > 0) continue;  // centre lines of the elements taken from the writer's own computation by the scenario
            std::string props = props_str(p.props, mode);
            std::vector<model::Pt> offs = rep_offsets(p.rep);
            const std::vector<model::Pt> spine = model::centre_line(p);
            int64_t w2 = mode == GDS ? rgrid(2 * p.hw) : 2 * rgrid(p.hw);
            int64_t eu = rgrid(p.eu), ev = rgrid(p.ev);
            // a simple path with several parallel elements is one PATH per element: the centre line displaced
            // sideways by (k - (n-1)/2) * sep (generated with a straight axis-parallel spine only, where the
            // displacement is exact; the set of displacements is symmetric, so its sign convention is immaterial)
            std::vector<model::Pt> shifts;
            int ne = p.nelem < 1 ? 1 : p.nelem;
            for (int k = 0; k < ne; k++) {
                model::dg_t d = (model::dg_t)(2 * k - (ne - 1)) * p.sep / 2;
                bool horizontal = spine.size() >= 2 && p.spine[0].y == p.spine[1].y;
                shifts.push_back(ne == 1 ? model::Pt{0, 0} : (horizontal ? model::Pt{0, d} : model::Pt{d, 0}));
            }
            for (auto& sh : shifts) {
                if (mode == GDS) {
                    for (auto& o : offs) {
                        std::vector<IPt> sp;
                        for (auto& q : spine) sp.push_back(rgrid(model::Pt{q.x + o.x + sh.x, q.y + o.y + sh.y}));
                        cc.close_path_vertices += close_pairs(sp);
                        bool ok;
                        std::string line = path_line(mode, p.layer, p.dtype, sp, w2, p.end, eu, ev,
                                                     p.scale_width, {}, props, ok);
                        if (ok) cc.paths.push_back(line);
                    }
                } else {
                    std::vector<IPt> sp;
                    for (auto& q : spine) sp.push_back(rgrid(model::Pt{q.x + sh.x, q.y + sh.y}));
                    bool ok;
                    std::string line = path_line(mode, p.layer, p.dtype, sp, w2, p.end, eu, ev,
                                                 p.scale_width, rep_grid(p.rep), props, ok);
                    if (ok) cc.paths.push_back(line);
                }
            }
        }
        for (auto& l : mc.labels) {
            std::string props = props_str(l.props, mode);
            if (mode == GDS) {
                for (auto& o : rep_offsets(l.rep))
                    cc.labels.push_back(label_line(
                        mode, l.layer, l.ttype, l.text,
                        rgrid(model::Pt{l.origin.x + o.x, l.origin.y + o.y}), l.anchor, l.rot_deg,
                        l.mag, l.xrefl, {}, props));
            } else {
                cc.labels.push_back(label_line(mode, l.layer, l.ttype, l.text, rgrid(l.origin),
                                               l.anchor, l.rot_deg, l.mag, l.xrefl,
                                               rep_grid(l.rep), props));
            }
        }
        for (auto& r : mc.refs) {
            std::string props = props_str(r.props, mode);
            IPt o = rgrid(r.origin);
            for (auto& off : rep_offsets(r.rep)) {
                // GDSII writes every copy at origin + offset, rounded as one sum (lattice vectors are generated on
                // the grid, where that makes no difference; explicit offsets need not be); OASIS stores the rounded
                // origin and the rounded offsets side by side
                IPt g = rgrid(off);
                IPt sum = mode == GDS ? rgrid(model::Pt{r.origin.x + off.x, r.origin.y + off.y}) : IPt{o.x + g.x, o.y + g.y};
                cc.refs.push_back(ref_line(r.target, r.xrefl, r.rot_deg, r.mag, sum.x * 1024, sum.y * 1024, props));
            }
        }
        if (mode == OAS) cc.props.push_back(props_str(mc.props, OAS));
        std::sort(cc.polys.begin(), cc.polys.end());
        std::sort(cc.paths.begin(), cc.paths.end());
        std::sort(cc.labels.begin(), cc.labels.end());
        std::sort(cc.refs.begin(), cc.refs.end());
        c.cells[mc.name] = cc;
    }
    return c;
}

// ---------------------------------------------------------------- comparison
inline bool rel_close(double a, double b, double tol = 1e-12) {
    if (a == b) return true;
    double m = fabs(a) > fabs(b) ? fabs(a) : fabs(b);
    return fabs(a - b) <= tol * m;
}

inline bool diff_lines(const char* what, const std::string& cell, const std::vector<std::string>& a,
                       const std::vector<std::string>& b, std::string& why) {
    if (a == b) return false;
    size_t i = 0, j = 0;
    while (i < a.size() || j < b.size()) {
        if (i < a.size() && j < b.size() && a[i] == b[j]) {
            i++;
            j++;
            continue;
        }
        if (j >= b.size() || (i < a.size() && a[i] < b[j])) {
            why = std::string(what) + " of cell '" + cell + "': expected but missing: " + a[i];
            if (j < b.size()) why += "  (nearest found: " + b[j] + ")";
            return true;
        }
        why = std::string(what) + " of cell '" + cell + "': found but not expected: " + b[j];
        if (i < a.size()) why += "  (nearest expected: " + a[i] + ")";
        return true;
    }
    return false;
}

// expected vs found; `clause` gets a short id (cells / polygons / paths / labels / references / properties / units)
inline bool differ(const CLib& exp, const CLib& got, bool check_unit, std::string& clause,
                   std::string& why) {
    if (check_unit && !(rel_close(exp.unit, got.unit) )) {
        clause = "unit";
        why = "unit expected " + real_str(exp.unit) + " found " + real_str(got.unit);
        return true;
    }
    if (!rel_close(exp.precision, got.precision)) {
        clause = "precision";
        why = "precision expected " + real_str(exp.precision) + " found " + real_str(got.precision);
        return true;
    }
    for (auto& kv : exp.cells)
        if (!got.cells.count(kv.first)) {
            clause = "cells";
            why = "cell '" + kv.first + "' missing after load";
            return true;
        }
    for (auto& kv : got.cells)
        if (!exp.cells.count(kv.first)) {
            clause = "cells";
            why = "unexpected cell '" + kv.first + "' after load";
            return true;
        }
    for (auto& kv : exp.cells) {
        const CCell& a = kv.second;
        const CCell& b = got.cells.at(kv.first);
        if (diff_lines("polygons", kv.first, a.polys, b.polys, why)) {
            clause = "polygons";
            return true;
        }
        if (diff_lines("paths", kv.first, a.paths, b.paths, why)) {
            clause = "paths";
            return true;
        }
        if (diff_lines("labels", kv.first, a.labels, b.labels, why)) {
            clause = "labels";
            return true;
        }
        if (diff_lines("references", kv.first, a.refs, b.refs, why)) {
            clause = "references";
            return true;
        }
        if (diff_lines("cell properties", kv.first, a.props, b.props, why)) {
            clause = "properties";
            return true;
        }
    }
    if (diff_lines("library properties", "", exp.props, got.props, why)) {
        clause = "properties";
        return true;
    }
    return false;
}

}  // namespace canon

#endif
