#include "exec.hpp"

#include <fcntl.h>
#include <string.h>
#include <sys/mman.h>
#include <time.h>
#include <unistd.h>

#include <gdstk/gdstk.hpp>

#include "oas_peer.hpp"
#include "region.hpp"

using namespace gdstk;
using sim::W;

extern "C" uint64_t gdstk_verif_oas_buffer_size;

extern "C" {
FILE* __real_fopen(const char*, const char*);
int __real_fclose(FILE*);
size_t __real_fwrite(const void*, size_t, size_t, FILE*);
}

namespace ex {

// ================================================================= status page (crash attribution)
struct StatusPage {
    uint64_t seed;
    int32_t step;
    char label[200];
};
static StatusPage* g_status = nullptr;

void status_init(const char* path) {
    if (path == nullptr) {  // anonymous page shared with forked children
        if (g_status) {
            g_status->step = -1;
            g_status->label[0] = 0;
            return;
        }
        void* p = mmap(nullptr, sizeof(StatusPage), PROT_READ | PROT_WRITE, MAP_SHARED | MAP_ANONYMOUS, -1, 0);
        if (p == MAP_FAILED) return;
        g_status = (StatusPage*)p;
        memset(g_status, 0, sizeof(*g_status));
        g_status->step = -1;
        return;
    }
    int fd = open(path, O_RDWR | O_CREAT | O_TRUNC, 0644);
    if (fd < 0) return;
    if (ftruncate(fd, sizeof(StatusPage)) != 0) {
        close(fd);
        return;
    }
    void* p = mmap(nullptr, sizeof(StatusPage), PROT_READ | PROT_WRITE, MAP_SHARED, fd, 0);
    close(fd);
    if (p == MAP_FAILED) return;
    g_status = (StatusPage*)p;
    memset(g_status, 0, sizeof(*g_status));
    g_status->step = -1;
}

void status_set(uint64_t seed, int step, const char* label) {
    if (!g_status) return;
    g_status->seed = seed;
    g_status->step = step;
    strncpy(g_status->label, label, sizeof(g_status->label) - 1);
    g_status->label[sizeof(g_status->label) - 1] = 0;
}

std::string status_op() {
    if (!g_status || g_status->step < 0) return "?";
    std::string l = g_status->label;   // "<step>:<op>[ <file>]"
    size_t a = l.find(':');
    if (a == std::string::npos) return "?";
    size_t b = l.find(' ', a);
    return l.substr(a + 1, b == std::string::npos ? std::string::npos : b - a - 1);
}

// ================================================================= helpers
static uint64_t fnv(const std::string& s, uint64_t h = 0xcbf29ce484222325ULL) {
    for (unsigned char c : s) h = (h ^ c) * 0x100000001b3ULL;
    return h;
}

static bool tm_from_json(const J& j, tm& out) {
    memset(&out, 0, sizeof(out));
    if (j.k != J::Arr || j.a.size() < 6) return false;
    out.tm_year = (int)j.a[0].i - 1900;
    out.tm_mon = (int)j.a[1].i - 1;
    out.tm_mday = (int)j.a[2].i;
    out.tm_hour = (int)j.a[3].i;
    out.tm_min = (int)j.a[4].i;
    out.tm_sec = (int)j.a[5].i;
    return true;
}

static std::array<uint16_t, 6> ts6(const tm& t) {
    return {(uint16_t)(t.tm_year + 1900), (uint16_t)(t.tm_mon + 1), (uint16_t)t.tm_mday,
            (uint16_t)t.tm_hour,          (uint16_t)t.tm_min,       (uint16_t)t.tm_sec};
}

// the fields a query hands back, as they are (a word of 32768 or more must not come back negative)
static std::array<int64_t, 6> ts6_wide(const tm& t) {
    return {(int64_t)t.tm_year + 1900, (int64_t)t.tm_mon + 1, (int64_t)t.tm_mday, (int64_t)t.tm_hour, (int64_t)t.tm_min, (int64_t)t.tm_sec};
}
static std::string ts_str(const std::array<int64_t, 6>& a) {
    char b[96];
    snprintf(b, sizeof b, "%lld-%lld-%lld %lld:%lld:%lld", (long long)a[0], (long long)a[1], (long long)a[2], (long long)a[3], (long long)a[4], (long long)a[5]);
    return b;
}
static std::string ts_str(const std::array<uint16_t, 6>& a) {
    char b[64];
    snprintf(b, sizeof b, "%u-%u-%u %u:%u:%u", a[0], a[1], a[2], a[3], a[4], a[5]);
    return b;
}

struct FileInfo {
    std::string fmt = "gds";
    std::string ref;       // complete file this one was derived from ("" = none)
    std::string damage;    // "", "cut", "torn", "enospc", "flip"
    int oas_sig = 0;       // validation scheme requested when written: 0 none, 1 crc32, 2 checksum32
    int model = -1;
    uint64_t max_points = 0;
    bool have_dec = false;
    gdspeer::Decoded dec;  // peer decode of the current bytes (gds)
    bool ts_known = false;
    std::array<uint16_t, 6> ts{};  // timestamp the writer was given
    bool peer_unsupported = false;  // the peer put records into it that gdstk documents as unsupported
    std::string writer;             // "lib", "writer", "peer"
};

struct RawHold {
    Map<RawCell*> map = {};
    std::vector<RawCell*> cells;      // in map iteration order
    std::vector<std::string> names;
    std::vector<bool> gone;           // drained or cleared
    std::string src;
    uint64_t live = 0;
    bool alive = false;
};

struct WriterSess {
    GdsWriter w;
    std::string file;
    bool open = false;
    int model = -1;
    uint64_t max_points = 0;
    bridge::Built built;   // cells written by write_cell come from here
};

struct Exec {
    const J& plan;
    ExecOptions opt;
    RunResult res;
    std::string prop;
    std::vector<model::MLib> models;
    std::map<std::string, FileInfo> finfo;
    std::map<std::string, Library> libs;      // loaded libraries kept across steps
    std::map<std::string, canon::CLib> canons; // canonical forms kept across steps
    std::map<std::string, RawHold> raws;
    std::map<std::string, WriterSess> writers;
    int step = -1;
    bool abandoned = false;  // the simulated heap ran dry: nothing after that point is executed or judged
    std::string opname;
    sim::OpenPolicy knobs;   // benign environment knobs, persistent
    uint64_t seed = 0;
    uint64_t sched_hash = 0x1234;
    std::set<uint64_t> option_sets;

    Exec(const J& p, const ExecOptions& o) : plan(p), opt(o) {}

    // ------------------------------------------------------------- bookkeeping
    int expected_open() const {
        int n = 0;
        for (auto& kv : raws)
            if (kv.second.alive && kv.second.live > 0) n++;
        for (auto& kv : writers)
            if (kv.second.open) n++;
        return n;
    }

    void viol(const std::string& vprop, const std::string& clause, const std::string& detail,
              J context = J::obj()) {
        if (abandoned) return;
        Viol v;
        v.prop = vprop;
        v.op = opname;
        v.clause = clause;
        v.detail = detail;
        v.step = step;
        v.context = context;
        for (auto& o : res.viols)
            if (o.signature() == v.signature()) return;  // first occurrence per signature is enough
        W->trace.ev("verdict", fnv(v.signature()));
        res.viols.push_back(v);
        if (opt.verbose && opt.trace_out)
            fprintf(opt.trace_out, "  !! VIOLATION %s: %s\n", v.signature().c_str(), detail.c_str());
    }

    void count(const std::string& k, uint64_t n = 1) { res.counters[k] += n; }

    gdspeer::Decoded& truth(const std::string& name) {
        FileInfo& fi = finfo[name];
        if (!fi.have_dec) {
            fi.dec = gdspeer::decode(W->fs.bytes(name));
            fi.have_dec = true;
        }
        return fi.dec;
    }

    void begin_step(const std::string& label) {
        W->fs.step_label = std::to_string(step) + ":" + label;
        status_set(seed, step, W->fs.step_label.c_str());
        W->event_budget = (int64_t)W->events + 5000000;
        W->trace.ev("step", (uint64_t)step, fnv(label));
        if (opt.verbose && opt.trace_out) fprintf(opt.trace_out, "[%d] %s\n", step, label.c_str());
    }

    // turn seam-level violations (heap, closed-handle I/O) recorded during this step into verdicts
    void drain_seam_violations(const std::string& vprop, const J& context) {
        for (auto& v : W->fs.violations) viol(vprop, v.clause, v.detail, context);
        W->fs.violations.clear();
    }

    // H1 after a call: nothing but the sessions' own handles may be open
    void check_handles(const std::string& vprop, const J& context) {
        int open = W->fs.open_count();
        int exp = expected_open();
        if (open > exp) {
            std::string names;
            for (sim::Handle* h : W->fs.open_handles()) names += " #" + std::to_string(h->id) + ":" + h->name + "(opened in " + h->opened_in + ")";
            viol(vprop, "handle_leak",
                 "open handles after the call: " + std::to_string(open) + ", expected " +
                     std::to_string(exp) + ";" + names,
                 context);
            // restore the baseline so that later steps are judged on their own
            std::set<FILE*> keep;
            for (auto& kv : writers)
                if (kv.second.open) keep.insert(kv.second.w.out);
            for (auto& kv : raws)
                if (kv.second.alive && kv.second.live > 0)
                    for (size_t i = 0; i < kv.second.cells.size(); i++)
                        if (!kv.second.gone[i] && kv.second.cells[i]->source)
                            keep.insert(kv.second.cells[i]->source->file);
            for (sim::Handle* h : W->fs.open_handles())
                if (!keep.count(h->fp)) h->state = sim::H_CLOSED;
        } else if (open < exp) {
            viol(vprop, "handle_closed_early",
                 "open handles after the call: " + std::to_string(open) + ", expected " + std::to_string(exp), context);
        }
    }

    // run one gdstk call under the abort guard; returns false when the run was aborted from inside
    template <class F>
    bool guarded(F f) {
        if (abandoned) return false;
        try {
            f();
            return true;
        } catch (sim::SimAbort& a) {
            count("aborted_calls");
            W->trace.ev("abort", fnv(a.what));
            if (a.what == "arena_exhausted") {
                // the simulated heap never reuses an address and is finite: a plan that runs it dry says nothing
                // about the library, and whatever the interrupted call was producing is incomplete.  The rest of
                // the plan is not executed and nothing more is judged.
                count("arena_exhausted");
                abandoned = true;
            }
            // whatever the interrupted call held open is gone with it
            std::set<FILE*> keep;
            for (auto& kv : writers)
                if (kv.second.open) keep.insert(kv.second.w.out);
            for (sim::Handle* h : W->fs.open_handles())
                if (!keep.count(h->fp) && h->opened_in == W->fs.step_label) h->state = sim::H_CLOSED;
            return false;
        }
    }

    // fault positions are interpreted modulo what the fault-free execution of the same save does
    void set_policy(const J& op, uint64_t clean_writes = 0, uint64_t clean_len = 0) {
        sim::OpenPolicy p = knobs;
        const J& f = op.at("fault");
        if (op.has("buf")) p.bufsize = op.geti("buf");
        if (f.k == J::Obj) {
            if (f.has("crash_at")) {
                int64_t k = f.geti("crash_at");
                if (clean_writes > 0) k = 1 + (k - 1) % (int64_t)clean_writes;
                p.crash_at_write = k;
                p.torn = f.geti("torn");
            }
            if (f.has("enospc")) {
                int64_t b = f.geti("enospc");
                if (clean_len > 0) b = b % (int64_t)clean_len;
                p.enospc_at = b;
            }
        }
        W->fs.policy = p;
    }
    // device writes and length of the fault-free execution of a save (for the modulo rule)
    template <class F>
    void probe_clean(const J& op, F save_to, uint64_t& writes, uint64_t& len) {
        writes = len = 0;
        if (op.at("fault").k != J::Obj) return;
        int64_t clock_before = W->clock.now;
        J clean = op;
        clean.set("fault", J());
        set_policy(clean);
        uint64_t w0 = W->fs.n_dev_write;
        guarded([&]() { save_to("/sim/.probe"); });
        writes = W->fs.n_dev_write - w0;
        len = W->fs.exists("/sim/.probe") ? W->fs.bytes("/sim/.probe").size() : 0;
        W->fs.files.erase("/sim/.probe");
        W->clock.now = clock_before;
        clear_policy();
    }
    void clear_policy() { W->fs.policy = knobs; }

    // ------------------------------------------------------------- C18 state measure
    void c18_state(const std::string& reader, const std::string& ref, uint64_t n, const std::string& damage) {
        gdspeer::Decoded& d = truth(ref);
        int rtype = 255, pos = 0, elem = 0, instruct = 0, snames = 0;
        for (auto& r : d.recs) {
            if (r.off > n) break;
            if (r.type == gdspeer::BGNSTR) {
                instruct = 1;
                snames = 0;
            }
            if (r.type == gdspeer::ENDSTR && r.off + r.len <= n) instruct = 0;
            if (r.type == gdspeer::BOUNDARY || r.type == gdspeer::PATH || r.type == gdspeer::SREF ||
                r.type == gdspeer::AREF || r.type == gdspeer::TEXT || r.type == gdspeer::BOX)
                elem = r.type;
            if (r.type == gdspeer::ENDEL && r.off + r.len <= n) elem = 0;
            if (r.type == gdspeer::SNAME && r.off + r.len <= n && snames < 2) snames++;
            if (n < r.off + r.len) {
                rtype = r.type;
                uint64_t k = n - r.off;
                pos = k < 4 ? (int)k : (k == 4 ? 4 : (k + 1 == r.len ? 6 : 5));
            } else if (n == r.off + r.len) {
                rtype = r.type;
                pos = 7;  // exactly after this record
            }
        }
        uint64_t h = fnv(reader);
        h = sim::Trace::mix(h, (uint64_t)rtype);
        h = sim::Trace::mix(h, (uint64_t)pos);
        h = sim::Trace::mix(h, (uint64_t)elem);
        h = sim::Trace::mix(h, (uint64_t)(instruct * 4 + snames));
        h = sim::Trace::mix(h, fnv(damage));
        res.states.insert(h);
    }

    // ------------------------------------------------------------- ops
    void op_knobs(const J& op) {
        if (op.has("buf")) knobs.bufsize = op.geti("buf");
        if (op.has("chunk")) knobs.chunk = (uint64_t)op.geti("chunk");
        if (op.has("fdlimit")) W->fs.fdlimit = (int)op.geti("fdlimit");
        if (op.has("heap_junk")) W->heap.junk = op.getb("heap_junk");
        if (op.has("heap_zero_null")) W->heap.zero_is_null = op.getb("heap_zero_null");
        if (op.has("no_logger")) {
            // diagnostics switched off (set_error_logger(NULL)), as the header documents: every message site must cope
            set_error_logger(op.getb("no_logger") ? NULL : W->log_sink);
            if (op.getb("no_logger")) count("runs_without_an_error_logger");
        }
        if (op.has("oas_buf")) gdstk_verif_oas_buffer_size = (uint64_t)op.geti("oas_buf");
        W->fs.policy = knobs;
    }

    void op_clock(const J& op) {
        if (op.has("set")) W->clock.set(op.geti("set"));
        if (op.has("add")) W->clock.advance(op.geti("add"));
        W->faults.clock_jumps++;
        W->trace.ev("clock", (uint64_t)W->clock.now);
    }

    void note_saved(const std::string& file, const J& op, const char* fmt, bool have_ts, const tm& t) {
        FileInfo fi;
        fi.fmt = fmt;
        fi.model = (int)op.geti("model", -1);
        fi.max_points = (uint64_t)op.geti("max_points");
        fi.ref = op.gets("ref");
        if (op.at("fault").k == J::Obj) {
            fi.damage = op.at("fault").has("enospc") ? "enospc" : "torn";
        }
        if (have_ts) {
            fi.ts_known = true;
            fi.ts = ts6(t);
        }
        if (!strcmp(fmt, "oas")) {
            uint64_t flags = (uint64_t)op.geti("flags");
            fi.oas_sig = (flags & OASIS_CONFIG_INCLUDE_CRC32) ? 1 : ((flags & OASIS_CONFIG_INCLUDE_CHECKSUM32) ? 2 : 0);
        }
        finfo[file] = fi;
    }

    void op_save_gds(const J& op) {
        int k = (int)op.geti("model");
        if (k < 0 || k >= (int)models.size()) return;
        std::string file = op.gets("file");
        uint64_t max_points = (uint64_t)op.geti("max_points");
        tm ts;
        bool have_ts = tm_from_json(op.at("ts"), ts);
        tm given = ts;
        if (!have_ts) sim::civil_from_time(W->clock.now, &given);  // what get_now() is about to see
        bool via_writer = op.gets("via") == "writer";
        ErrorCode ec = ErrorCode::NoError;
        bridge::Built b;
        auto save_to = [&](const char* fname) {
            if (!via_writer) {
                ec = b.lib.write_gds(fname, max_points, have_ts ? &ts : NULL);
            } else {
                GdsWriter w = gdswriter_init(fname, b.lib.name, b.lib.unit, b.lib.precision,
                                             max_points, have_ts ? &ts : NULL, &ec);
                if (w.out) {
                    for (uint64_t i = 0; i < b.lib.cell_array.count; i++) {
                        ErrorCode e2 = w.write_cell(*b.lib.cell_array[i]);
                        if (e2 != ErrorCode::NoError) ec = e2;
                    }
                    w.close();
                }
            }
        };
        bool done = guarded([&]() { b = bridge::build(models[k]); });
        if (done) {
            uint64_t cw, cl;
            probe_clean(op, save_to, cw, cl);
            // "second_save": the file that is kept (and checked) is the second one written from the same
            // in-memory library; whatever a save leaves behind in the library must not change the next one
            bool second = op.getb("second_save") && op.at("fault").k != J::Obj;
            if (second) {
                guarded([&]() { save_to("/sim/.first"); });
                W->fs.files.erase("/sim/.first");
                count("second_save_of_the_same_library");
                if (!have_ts) sim::civil_from_time(W->clock.now, &given);  // the clock has moved on
            }
            done = guarded([&]() {
                set_policy(op, cw, cl);
                save_to(file.c_str());
            });
        }
        clear_policy();
        if (done) b.destroy();
        note_saved(file, op, "gds", true, given);
        finfo[file].writer = via_writer ? "writer" : "lib";
        count(via_writer ? "save_gds_writer" : "save_gds_lib");
        if (ec != ErrorCode::NoError) count(std::string("save_code_") + bridge::error_name(ec));
        J ctx = J::obj();
        ctx.set("via", via_writer ? "writer" : "lib");
        drain_seam_violations(prop, ctx);
        check_handles(prop, ctx);
    }

    void op_save_oas(const J& op) {
        int k = (int)op.geti("model");
        if (k < 0 || k >= (int)models.size()) return;
        std::string file = op.gets("file");
        ErrorCode ec = ErrorCode::NoError;
        // write_oas installs S_* properties in the library it is given: every attempt gets a fresh one
        bool second = op.getb("second_save") && op.at("fault").k != J::Obj;
        auto save_to = [&](const char* fname) {
            bridge::Built t = bridge::build(models[k]);
            if (second && std::string(fname) == file) {
                // the kept file is the second one written from the same in-memory library (first under the
                // other detection flags): what a save installs in the library must not leak into the next file
                t.lib.write_oas("/sim/.first", op.getd("tol"), (uint8_t)((op.geti("level") + 3) % 10), (uint16_t)(op.geti("flags") ^ 0x3f));
                W->fs.files.erase("/sim/.first");
                count("second_save_of_the_same_library");
            }
            ec = t.lib.write_oas(fname, op.getd("tol"), (uint8_t)op.geti("level"), (uint16_t)op.geti("flags"));
            t.destroy();
        };
        uint64_t cw, cl;
        probe_clean(op, save_to, cw, cl);
        bool done = guarded([&]() {
            set_policy(op, cw, cl);
            save_to(file.c_str());
        });
        (void)done;
        clear_policy();
        tm none = {};
        note_saved(file, op, "oas", false, none);
        finfo[file].max_points = (uint64_t)op.geti("flags");
        count("save_oas");
        res.counters["oas_option_sets"] += 0;
        option_sets.insert(((uint64_t)op.geti("flags") << 8) | ((uint64_t)op.geti("level") << 1) | (op.getd("tol") > 0 ? 1 : 0));
        if (ec != ErrorCode::NoError) count(std::string("save_code_") + bridge::error_name(ec));
        J ctx = J::obj();
        drain_seam_violations(prop, ctx);
        check_handles(prop, ctx);
    }

    void op_peer_gds(const J& op) {
        int k = (int)op.geti("model");
        if (k < 0 || k >= (int)models.size()) return;
        std::string file = op.gets("file");
        gdspeer::Choices ch = gdspeer::choices_from(op.at("choices"));
        bool unsupported = false;
        std::vector<uint8_t> bytes = gdspeer::encode(models[k], ch, &unsupported);
        W->fs.put(file, bytes);
        W->trace.ev("peer_encode", bytes.size());
        W->trace.bytes(bytes.data(), bytes.size());
        FileInfo fi;
        fi.fmt = "gds";
        fi.model = k;
        fi.ts_known = true;
        for (int i = 0; i < 6; i++) fi.ts[i] = ch.lib_ts[i];
        fi.peer_unsupported = unsupported;
        fi.writer = "peer";
        finfo[file] = fi;
        {
            uint64_t cb = (ch.elflags ? 1 : 0) | (ch.header_extras ? 2 : 0) | (ch.box_for_rect ? 4 : 0) | (ch.explicit_defaults ? 8 : 0) |
                          (ch.omit_zero_width ? 16 : 0) | (ch.denorm_reals ? 32 : 0) | (ch.pad_after_endlib ? 64 : 0) |
                          (ch.xy_split ? 128 : 0) | (ch.text_path_records ? 256 : 0) | (ch.font_bits ? 512 : 0) | (ch.aref ? 1024 : 0);
            feature_state("peer_gds", k, cb, 0);
        }
        count("peer_gds");
        if (ch.xy_split) count("peer_xy_split");
        if (ch.box_for_rect) count("peer_box");
    }

    uint64_t resolve_cut(const J& op, const std::string& src, uint64_t len) {
        if (op.has("rec") && finfo[src].fmt == "gds") {
            gdspeer::Decoded& d = truth(src);
            if (!d.recs.empty()) {
                const gdspeer::Rec& r = d.recs[(uint64_t)op.geti("rec") % d.recs.size()];
                int64_t at = (int64_t)r.off + op.geti("delta");
                if (at < 0) at = 0;
                return (uint64_t)at % len;
            }
        }
        if (op.has("tail_like_signature")) {
            // a prefix whose last five bytes read as "validation scheme 1 or 2 + four bytes": the readers that
            // look at the tail of the file must not take what they find there for a signature that matches
            const std::vector<uint8_t>& b = W->fs.bytes(src);
            std::vector<uint64_t> cand, better;
            for (uint64_t i = 14; i + 5 <= len && i + 5 < b.size(); i++)
                if (b[i] == 1 || b[i] == 2) {
                    cand.push_back(i + 5);
                    if (b[i + 1] == 0) better.push_back(i + 5);  // a NUL next: partial comparisons stop early
                }
            uint64_t pick = (uint64_t)op.geti("tail_like_signature");
            if (!better.empty() && (pick & 1)) return better[(pick >> 1) % better.size()] % len;
            if (!cand.empty()) return cand[(pick >> 1) % cand.size()] % len;
        }
        if (op.has("spot")) {
            int64_t sp = op.geti("spot");
            if (sp < 0) sp += (int64_t)len;
            if (sp < 0) sp = 0;
            return (uint64_t)sp % len;
        }
        return (uint64_t)op.geti("at") % len;
    }

    void make_cut(const std::string& src, const std::string& dst, uint64_t at) {
        std::vector<uint8_t> b = W->fs.bytes(src);
        b.resize(at);
        W->fs.put(dst, b);
        FileInfo fi = finfo[src];
        fi.ref = src;
        fi.damage = "cut";
        fi.have_dec = false;
        fi.dec = gdspeer::Decoded();
        finfo[dst] = fi;
        W->faults.cut++;
        W->trace.ev("cut", at);
    }

    void op_cut(const J& op) {
        std::string src = op.gets("src"), dst = op.gets("dst");
        if (!W->fs.exists(src)) return;
        uint64_t len = W->fs.bytes(src).size();
        if (len == 0) return;
        make_cut(src, dst, resolve_cut(op, src, len));
    }

    // every prefix of a file through every reader (bounded by file size; `exhaustive` in evidence)
    void op_sweep(const J& op) {
        std::string src = op.gets("src");
        if (!W->fs.exists(src)) return;
        uint64_t len = W->fs.bytes(src).size();
        uint64_t lo = (uint64_t)op.geti("lo", 0), hi = op.has("hi") ? (uint64_t)op.geti("hi") : len;
        if (hi > len) hi = len;
        uint64_t every = (uint64_t)op.geti("repeat_every", 0);
        std::string dst = finfo[src].fmt == "oas" ? "/sim/sweep.oas" : "/sim/sweep.gds";
        truth(src);
        // the work is quadratic in the length: beyond 48 KiB the cuts are thinned out (counted, so that the
        // evidence does not call such a file exhaustively swept)
        uint64_t stride = len > 49152 ? len / 49152 + 1 : 1;
        {
            // ... and in the number of device reads it takes, which the installed buffer and chunk sizes decide:
            // about readers * len^2 / 2 bytes go through reads of `piece` bytes each; keep that below ~3e7 events
            uint64_t piece = 4096;
            if (W->fs.policy.bufsize == 0) piece = 1;
            if (W->fs.policy.bufsize > 0 && (uint64_t)W->fs.policy.bufsize < piece) piece = (uint64_t)W->fs.policy.bufsize;
            if (W->fs.policy.chunk > 0 && W->fs.policy.chunk < piece) piece = W->fs.policy.chunk;
            double events = (double)op.at("readers").a.size() * (double)len * (double)len / 2.0 / (double)piece;
            uint64_t by_cost = (uint64_t)(events / 3e7) + 1;
            if (by_cost > stride) stride = by_cost;
        }
        if (stride > 1) count("sweep_files_thinned");
        for (uint64_t n = lo; n < hi; n += stride) {
            uint64_t mark = W->heap.mark();
            make_cut(src, dst, n);
            for (auto& rd : op.at("readers").a) {
                J r = J::obj();
                r.set("op", rd.s);
                r.set("file", dst);
                r.set("repeat", (every && n % every == 0) ? 2 : 1);
                if (op.geti("no_error_code_every", 0) > 0 && n % (uint64_t)op.geti("no_error_code_every") == 1) r.set("no_error_code", true);
                if (op.geti("no_signature_every", 0) > 0 && n % (uint64_t)op.geti("no_signature_every") == 2) r.set("no_signature", true);
                if (rd.s == "gds_info" && n % 5 == 3) r.set("reuse_summary", true);
                size_t before = res.viols.size();
                opname = rd.s;
                op_reader(r);
                for (size_t i = before; i < res.viols.size(); i++) res.viols[i].context.set("cut_at", (int64_t)n);
            }
            W->fs.reap_closed();
            res.counters["heap_leaked_bytes_in_sweep"] += W->heap.rollback(mark);
            W->event_budget = (int64_t)W->events + 5000000;
            count("sweep_cuts");
        }
        if (stride == 1) count("sweep_files");
        res.counters["sweep_bytes"] += len;
    }

    void op_flip(const J& op) {
        std::string file = op.gets("file");
        if (!W->fs.exists(file)) return;
        std::vector<uint8_t>& b = W->fs.bytes(file);
        if (b.empty()) return;
        uint64_t span = b.size();
        if (op.has("keep_tail") && span > (uint64_t)op.geti("keep_tail")) span -= (uint64_t)op.geti("keep_tail");
        uint64_t at = (uint64_t)op.geti("at") % span;
        uint8_t mask = (uint8_t)op.geti("mask");
        if (!mask) mask = 1;
        b[at] ^= mask;
        finfo[file].damage = "flip";
        finfo[file].have_dec = false;
        W->faults.flip++;
        W->trace.ev("flip", at, mask);
    }

    // Is `file` a strict prefix of its reference that stops before the end of ENDLIB?
    // returns 1 truncated, 0 complete, -1 unknown (not a prefix / no usable reference)
    int gds_truncated(const std::string& file, std::string& ref_out) {
        FileInfo& fi = finfo[file];
        std::string ref = fi.ref.empty() ? file : fi.ref;
        ref_out = ref;
        if (!W->fs.exists(ref)) return -1;
        gdspeer::Decoded& d = truth(ref);
        if (!d.ok) return -1;
        const std::vector<uint8_t>& a = W->fs.bytes(file);
        const std::vector<uint8_t>& r = W->fs.bytes(ref);
        if (a.size() > r.size() || (a.size() && memcmp(a.data(), r.data(), a.size()) != 0)) return -1;
        return a.size() < d.endlib_end ? 1 : 0;
    }

    void op_reader(const J& op) {
        std::string reader = op.gets("op");
        std::string file = op.gets("file");
        int repeat = (int)op.geti("repeat", 1);
        if (repeat < 1) repeat = 1;
        if (!W->fs.exists(file)) return;
        FileInfo& fi = finfo[file];
        bool oas = fi.fmt == "oas";
        bool oas_reader = reader == "oas_precision" || reader == "oas_validate" || reader == "read_oas";
        std::string ref;
        int trunc;
        uint64_t flen = W->fs.bytes(file).size();
        if (!oas) {
            trunc = gds_truncated(file, ref);
        } else {
            ref = fi.ref.empty() ? file : fi.ref;
            const std::vector<uint8_t>& a = W->fs.bytes(file);
            const std::vector<uint8_t>& r = W->fs.bytes(ref);
            if (!W->fs.exists(ref) || a.size() > r.size() || (a.size() && memcmp(a.data(), r.data(), a.size()) != 0))
                trunc = -1;
            else
                trunc = a.size() < r.size() ? 1 : 0;
        }
        J ctx = J::obj();
        ctx.set("reader", reader);
        ctx.set("file_state", trunc == 1 ? "truncated" : (trunc == 0 ? "complete" : "other"));
        if (!fi.damage.empty()) ctx.set("damage", fi.damage);
        if (trunc == 1 && !oas) {
            c18_state(reader, ref, flen, fi.damage);
            // narrow context for findings: what the open structure looked like at the cut
            gdspeer::Decoded& d = truth(ref);
            int instruct = 0, snames = 0;
            std::string cutrec = "EOF";
            for (auto& r : d.recs) {
                if (r.off + r.len > flen) {
                    cutrec = std::to_string(r.type);
                    break;
                }
                if (r.type == gdspeer::BGNSTR) {
                    instruct = 1;
                    snames = 0;
                }
                if (r.type == gdspeer::ENDSTR) instruct = 0;
                if (r.type == gdspeer::SNAME) snames++;
            }
            ctx.set("open_structure", instruct);
            ctx.set("snames_in_open_structure", snames > 2 ? 2 : snames);
        } else if (trunc == 1 && oas) {
            uint64_t h = fnv(reader);
            uint64_t rl = W->fs.bytes(ref).size();
            int cls = flen < 14 ? 0 : (flen < 18 ? 1 : (flen < 40 ? 2 : (flen + 256 <= rl ? 3 : (flen + 5 < rl ? 4 : 5))));
            h = sim::Trace::mix(h, (uint64_t)cls);
            h = sim::Trace::mix(h, (uint64_t)finfo[ref].oas_sig);
            h = sim::Trace::mix(h, fnv(fi.damage));
            res.states.insert(h);
        }
        // which property judges this call
        bool c18_reader = reader != "read_oas";
        std::string vprop = (trunc == 1 && c18_reader) ? "C18" : prop;
        count("reader_calls_" + reader, (uint64_t)repeat);
        if (trunc == 1) count("calls_on_truncated", (uint64_t)repeat);
        if (trunc == 0) count("calls_on_complete", (uint64_t)repeat);
        if (trunc == -1) count("calls_unclassified", (uint64_t)repeat);

        // the error code is an optional out-parameter of these readers ("if not NULL ..."): without it the
        // verdict rests on what is returned (an empty library / map for a file that is not complete)
        const bool no_ec = op.getb("no_error_code");
        if (no_ec) {
            ctx.set("error_code_pointer", "null");
            count("reader_calls_without_error_code", (uint64_t)repeat);
        }
        for (int it = 0; it < repeat; it++) {
            ErrorCode ec = ErrorCode::NoError;
            ErrorCode* ecp = no_ec ? NULL : &ec;
            bool returned = false;
            if (reader == "read_gds") {
                Library lib = {};
                returned = guarded([&]() {
                    lib = read_gds(file.c_str(), op.getd("unit", 0), op.getd("tol", 0), NULL, ecp);
                });
                if (returned && no_ec) {
                    if (trunc == 1 && lib.cell_array.count != 0)
                        viol("C18", "truncated_read_as_complete",
                             "read_gds (no error code requested) returned " + std::to_string(lib.cell_array.count) + " cells for a file cut at byte " + std::to_string(flen), ctx);
                    guarded([&]() { lib.free_all(); });
                } else if (returned) {
                    if (trunc == 1 && ec == ErrorCode::NoError)
                        viol("C18", "truncated_read_as_complete",
                             "read_gds returned NoError for a file cut at byte " + std::to_string(flen) +
                                 " (complete file: ENDLIB ends at " + std::to_string(truth(ref).endlib_end) + ")", ctx);
                    else if (trunc == 1 && (int)ec < (int)ErrorCode::ChecksumError)
                        // the codes before ChecksumError are documented as warnings: the call carried on and what it
                        // returned is meant to be used
                        viol("C18", "truncated_reported_as_warning",
                             std::string("read_gds reported only the warning ") + bridge::error_name(ec) + " for a file cut at byte " + std::to_string(flen), ctx);
                    if (trunc == 0 && ec != ErrorCode::NoError)
                        viol("C03", "complete_file_rejected", std::string("read_gds returned ") + bridge::error_name(ec) + " for a complete file", ctx);
                    guarded([&]() { lib.free_all(); });
                }
            } else if (reader == "read_rawcells") {
                Map<RawCell*> m = {};
                returned = guarded([&]() { m = read_rawcells(file.c_str(), ecp); });
                if (returned) {
                    if (no_ec && trunc == 1 && m.count != 0)
                        viol("C18", "truncated_read_as_complete",
                             "read_rawcells (no error code requested) returned " + std::to_string(m.count) + " cells for a file cut at byte " + std::to_string(flen), ctx);
                    if (!no_ec && trunc == 1 && ec == ErrorCode::NoError)
                        viol("C18", "truncated_read_as_complete",
                             "read_rawcells returned NoError (" + std::to_string(m.count) +
                                 " cells) for a file cut at byte " + std::to_string(flen), ctx);
                    else if (!no_ec && trunc == 1 && (int)ec < (int)ErrorCode::ChecksumError)
                        // the codes before ChecksumError are documented as warnings: the call carried on and what it
                        // returned is meant to be used
                        viol("C18", "truncated_reported_as_warning",
                             std::string("read_rawcells reported only the warning ") + bridge::error_name(ec) + " for a file cut at byte " + std::to_string(flen), ctx);
                    if (!no_ec && trunc == 0 && ec != ErrorCode::NoError)
                        viol("C17", "complete_file_rejected", std::string("read_rawcells returned ") + bridge::error_name(ec) + " for a complete file", ctx);
                    guarded([&]() {
                        for (MapItem<RawCell*>* item = m.next(NULL); item; item = m.next(item)) {
                            item->value->clear();
                            free_allocation(item->value);
                        }
                        m.clear();
                    });
                }
            } else if (reader == "gds_info") {
                LibraryInfo info = {};
                // "reuse_summary": the caller's LibraryInfo already holds the summary of another (complete)
                // file; what it owns must still be intact after the call, whatever the call met
                std::vector<std::string> owned;
                if (op.getb("reuse_summary") && !ref.empty() && ref != file && W->fs.exists(ref)) {
                    guarded([&]() { gds_info(ref.c_str(), info); });
                    for (uint64_t i = 0; i < info.cell_names.count; i++) owned.push_back(info.cell_names[i] ? info.cell_names[i] : "");
                    count("gds_info_into_a_used_summary");
                }
                returned = guarded([&]() { ec = gds_info(file.c_str(), info); });
                if (returned && !owned.empty()) {
                    bool intact = info.cell_names.count >= owned.size();
                    for (size_t i = 0; intact && i < owned.size(); i++) {
                        bool same = false;
                        guarded([&]() { same = info.cell_names[i] && owned[i] == info.cell_names[i]; });
                        intact = same;
                    }
                    if (!intact)
                        viol(vprop, "summary_of_earlier_call_damaged", "gds_info into a LibraryInfo that already held " + std::to_string(owned.size()) +
                                                                           " cell names: those names are no longer what they were", ctx);
                }
                if (returned) {
                    if (trunc == 1 && ec == ErrorCode::NoError)
                        viol("C18", "truncated_read_as_complete",
                             "gds_info returned NoError for a file cut at byte " + std::to_string(flen), ctx);
                    else if (trunc == 1 && (int)ec < (int)ErrorCode::ChecksumError)
                        // the codes before ChecksumError are documented as warnings: the call carried on and what it
                        // returned is meant to be used
                        viol("C18", "truncated_reported_as_warning",
                             std::string("gds_info reported only the warning ") + bridge::error_name(ec) + " for a file cut at byte " + std::to_string(flen), ctx);
                    if (trunc == 0 && ec != ErrorCode::NoError)
                        viol("C17", "complete_file_rejected", std::string("gds_info returned ") + bridge::error_name(ec) + " for a complete file", ctx);
                }
                guarded([&]() { info.clear(); });
            } else if (reader == "gds_units") {
                double u = 0, p = 0;
                returned = guarded([&]() { ec = gds_units(file.c_str(), u, p); });
                if (returned && trunc >= 0 && ec == ErrorCode::NoError) {
                    gdspeer::Decoded& d = truth(ref);
                    if (!canon::rel_close(u, d.lib.unit) || !canon::rel_close(p, d.lib.precision))
                        viol(trunc == 1 ? "C18" : "C17", "units_wrong",
                             "gds_units returned unit=" + canon::real_str(u) + " precision=" + canon::real_str(p) +
                                 ", the complete file says unit=" + canon::real_str(d.lib.unit) + " precision=" + canon::real_str(d.lib.precision), ctx);
                }
                if (returned && trunc == 0 && ec != ErrorCode::NoError)
                    viol("C17", "complete_file_rejected", std::string("gds_units returned ") + bridge::error_name(ec) + " for a complete file", ctx);
            } else if (reader == "gds_timestamp") {
                tm t = {};
                returned = guarded([&]() { t = gds_timestamp(file.c_str(), NULL, ecp); });
                // without an error code a zeroed tm is the only sign of failure
                bool all_zero = t.tm_year == 0 && t.tm_mon == 0 && t.tm_mday == 0 && t.tm_hour == 0 && t.tm_min == 0 && t.tm_sec == 0;
                if (returned && trunc >= 0 && ec == ErrorCode::NoError && !(no_ec && all_zero)) {
                    gdspeer::Decoded& d = truth(ref);
                    std::array<int64_t, 6> got = ts6_wide(t), want;
                    for (int i = 0; i < 6; i++) want[i] = d.lib_ts[i];
                    if (got != want)
                        viol(trunc == 1 ? "C18" : "C17", "timestamp_wrong",
                             "gds_timestamp returned " + ts_str(got) + ", the complete file stores " + ts_str(want), ctx);
                }
                if (returned && trunc == 0 && ec != ErrorCode::NoError)
                    viol("C17", "complete_file_rejected", std::string("gds_timestamp returned ") + bridge::error_name(ec) + " for a complete file", ctx);
            } else if (reader == "oas_precision") {
                double p = 0;
                returned = guarded([&]() { ec = oas_precision(file.c_str(), p); });
                if (returned && trunc == 0 && oas && op.getb("against_full_load")) {
                    ErrorCode ec2 = ErrorCode::NoError;
                    Library full = {};
                    bool r2 = guarded([&]() { full = read_oas(file.c_str(), 0, 0, &ec2); });
                    if (r2) {
                        if (ec != ErrorCode::NoError)
                            viol("C17", "complete_file_rejected", std::string("oas_precision returned ") + bridge::error_name(ec) + " for a complete file", ctx);
                        else if (!canon::rel_close(p, full.precision))
                            viol("C17", "oas_precision_vs_full_load", "oas_precision returned " + canon::real_str(p) + ", the full load has precision " + canon::real_str(full.precision), ctx);
                        guarded([&]() { full.free_all(); });
                    }
                    count("oas_precision_vs_full_load");
                }
                if (returned && trunc == 0 && oas && fi.model >= 0 && ec == ErrorCode::NoError) {
                    if (!canon::rel_close(p, models[fi.model].precision))
                        viol("C17", "oas_precision_wrong", "oas_precision returned " + canon::real_str(p) + " for a file written with precision " + canon::real_str(models[fi.model].precision), ctx);
                }
            } else if (reader == "oas_validate") {
                uint32_t sig = 0;
                bool ok = false;
                // the signature out-parameter is optional too ("only the verdict")
                const bool no_sig = op.getb("no_signature");
                uint32_t* sigp = no_sig ? NULL : &sig;
                if (no_sig) ctx.set("no_signature", true);
                returned = guarded([&]() { ok = oas_validate(file.c_str(), sigp, ecp); });
                int scheme = finfo[ref].oas_sig;
                ctx.set("signed", scheme);
                // documented: true also means "no validation data", told apart by the error code or, without
                // one, by the signature reported as zero (with neither there is nothing to tell them apart by)
                if (returned && trunc == 1 && scheme != 0 && ok && (no_ec ? (!no_sig && sig != 0) : ec == ErrorCode::NoError))
                    viol("C18", "truncated_signature_accepted",
                         "oas_validate reported a matching signature for a signed file cut at byte " + std::to_string(flen) + " of " + std::to_string(W->fs.bytes(ref).size()), ctx);
                if (returned && trunc == 0 && oas && scheme != 0 && !(ok && ec == ErrorCode::NoError))
                    viol("C02", "signature_rejected", std::string("oas_validate rejected the pristine signed file: ok=") + (ok ? "true" : "false") + " code=" + bridge::error_name(ec), ctx);
            } else if (reader == "read_oas") {
                Library lib = {};
                returned = guarded([&]() { lib = read_oas(file.c_str(), op.getd("unit", 0), op.getd("tol", 0), &ec); });
                if (returned) guarded([&]() { lib.free_all(); });
            } else {
                return;
            }
            (void)oas_reader;
            if (!returned) {
                count("reader_aborted");
                ctx.set("returned", false);
            }
            W->trace.ev("reader_done", fnv(reader), (uint64_t)ec, returned ? 1 : 0);
            drain_seam_violations(vprop, ctx);
            check_handles(vprop, ctx);
            if (!returned) break;
        }
    }



    static uint64_t model_features(const model::MLib& m) {
        uint64_t f = 0;
        auto bit = [&](int b) { f |= 1ULL << b; };
        for (auto& c : m.cells) {
            if (!c.polys.empty()) bit(0);
            if (!c.labels.empty()) bit(1);
            if (!c.refs.empty()) bit(2);
            for (auto& p : c.polys) {
                if (p.rep.type) bit(3 + p.rep.type);          // 4..8
                if (p.pts.size() > 8190) bit(9);
                if (p.pts.size() == 4) bit(10);
                if (!p.props.empty()) bit(11);
                if (p.hint == 1) bit(12);
                for (auto& q : p.pts)
                    if (q.x % 10 || q.y % 10) bit(13);
            }
            for (auto& p : c.paths) {
                bit(p.simple ? (p.impl ? 15 : 14) : 16);
                bit(17 + p.end);                                // 17..21
                if (!p.scale_width) bit(22);
                if (p.rep.type) bit(23);
                if (p.hw == 0) bit(24);
            }
            for (auto& l : c.labels) {
                if (l.rot_deg != 0) bit(25);
                if (l.mag != 1) bit(26);
                if (l.xrefl) bit(27);
                if (l.rep.type) bit(28);
                if (l.anchor != 0) bit(29);
                if (l.text.size() % 2) bit(30);
            }
            for (auto& r : c.refs) {
                if (r.rep.type) bit(30 + r.rep.type);           // 31..35
                double q = r.rot_deg / 90.0;
                if (r.rot_deg != 0) bit(q == floor(q) ? 36 : 37);
                if (r.mag != 1) bit(38);
                if (r.xrefl) bit(39);
                if (r.how == 1) bit(40);
                if (!m.in_lib(r.target)) bit(41);
                if (!r.props.empty()) bit(42);
            }
            if (c.name.size() % 2) bit(43);
            if (!c.props.empty()) bit(44);
        }
        if (!m.props.empty()) bit(45);
        if (!m.ext_cells.empty()) bit(46);
        return f;
    }

    void feature_state(const std::string& what, int model_index, uint64_t a, uint64_t b) {
        uint64_t h = fnv(what);
        if (model_index >= 0 && model_index < (int)models.size()) h = sim::Trace::mix(h, model_features(models[model_index]));
        h = sim::Trace::mix(h, a);
        h = sim::Trace::mix(h, b);
        res.states.insert(h);
    }

    // ------------------------------------------------------------- expectation helpers
    static bool line_tag(const std::string& line, uint64_t& tag) {
        // "P L<layer>/<type> ..." or "W L<layer>/<type> ..."
        size_t a = line.find(" L");
        if (a == std::string::npos) return false;
        size_t b = line.find('/', a);
        size_t c = line.find(' ', b);
        if (b == std::string::npos || c == std::string::npos) return false;
        uint64_t layer = strtoull(line.c_str() + a + 2, nullptr, 10);
        uint64_t type = strtoull(line.c_str() + b + 1, nullptr, 10);
        tag = (type << 32) | layer;
        return true;
    }

    static void filter_canon(canon::CLib& c, const std::set<uint64_t>& keep) {
        for (auto& kv : c.cells) {
            for (auto* lines : {&kv.second.polys, &kv.second.paths}) {
                std::vector<std::string> r;
                for (auto& l : *lines) {
                    uint64_t tag;
                    if (line_tag(l, tag) && keep.count(tag)) r.push_back(l);
                }
                lines->swap(r);
            }
            for (auto it = kv.second.region.begin(); it != kv.second.region.end();)
                it = keep.count(it->first) ? std::next(it) : kv.second.region.erase(it);
        }
    }

    // canonical expectation for a file gdstk wrote from model k as GDSII
    struct Expect {
        canon::CLib c;
        std::map<std::string, std::set<uint64_t>> region_tags;
        std::map<std::string, std::map<uint64_t, std::vector<region::Poly>>> region;  // cell -> tag -> originals
        bool ok = true;
    };

    Expect expect_gds(int k, uint64_t max_points) {
        Expect E;
        const model::MLib& m = models[k];
        canon::Options o;
        o.mode = canon::GDS;
        o.max_points = max_points;
        E.c = canon::from_model(m, o);
        for (auto& mc : m.cells) {
            canon::CCell& cc = E.c.cells[mc.name];
            for (auto& kv : cc.region) {
                E.region_tags[mc.name].insert(kv.first);
                E.region[mc.name][kv.first] = kv.second;
            }
            cc.region.clear();
            for (auto& p : mc.paths) {
                uint64_t tag = ((uint64_t)p.dtype << 32) | p.layer;
                if (!p.simple) {
                    // polygons instead of a PATH record; fractured further when above the limit
                    std::vector<region::Poly> outl;
                    uint64_t raw_max = 0;
                    guarded([&]() { outl = bridge::path_outline(m, p, &raw_max); });
                    // the writer decides on the vertex count of the outline as computed, before rounding
                    bool fract = max_points > 4 && raw_max > max_points;
                    if (fract || p.nelem > 1) {
                        E.region_tags[mc.name].insert(tag);
                        for (auto& q : outl) E.region[mc.name][tag].push_back(q);
                    } else {
                        std::string props = canon::props_str(p.props, canon::GDS);
                        for (auto& q : outl) {
                            bool ok;
                            std::string line = canon::poly_line(p.layer, p.dtype, q, {}, props, ok);
                            if (ok) cc.polys.push_back(line);
                        }
                    }
                } else if (p.impl == 0 && p.nelem > 1 && p.bend > 0) {
                    // simple FlexPath with several elements and circular bends: one PATH per element along the
                    // centre line the writer computes for it
                    std::vector<region::Poly> cl;
                    guarded([&]() { cl = bridge::flex_centres(m, p); });
                    std::string props = canon::props_str(p.props, canon::GDS);
                    for (auto& q : cl) {
                        bool ok;
                        std::string line = canon::path_line(canon::GDS, p.layer, p.dtype, q, canon::rgrid(2 * p.hw), p.end,
                                                            canon::rgrid(p.eu), canon::rgrid(p.ev), p.scale_width, {}, props, ok);
                        if (ok) cc.paths.push_back(line);
                    }
                } else if (p.impl == 1) {
                    // simple RobustPath: the writer samples the centre line itself
                    std::vector<region::Poly> cl;
                    guarded([&]() { cl = bridge::robust_centres(m, p); });
                    std::string props = canon::props_str(p.props, canon::GDS);
                    // drop the line from_model produced from the raw spine, add the sampled ones
                    std::vector<canon::IPt> none;
                    for (auto& off : canon::rep_offsets(p.rep)) {
                        std::vector<canon::IPt> sp;
                        for (auto& q : p.spine) sp.push_back(canon::rgrid(model::Pt{q.x + off.x, q.y + off.y}));
                        bool ok;
                        std::string raw = canon::path_line(canon::GDS, p.layer, p.dtype, sp, canon::rgrid(2 * p.hw), p.end,
                                                           canon::rgrid(p.eu), canon::rgrid(p.ev), p.scale_width, {}, props, ok);
                        auto it = std::find(cc.paths.begin(), cc.paths.end(), raw);
                        if (it != cc.paths.end()) cc.paths.erase(it);
                    }
                    for (auto& q : cl) {
                        bool ok;
                        std::string line = canon::path_line(canon::GDS, p.layer, p.dtype, q, canon::rgrid(2 * p.hw), p.end,
                                                            canon::rgrid(p.eu), canon::rgrid(p.ev), p.scale_width, {}, props, ok);
                        if (ok) cc.paths.push_back(line);
                    }
                }
            }
            std::sort(cc.polys.begin(), cc.polys.end());
            std::sort(cc.paths.begin(), cc.paths.end());
        }
        return E;
    }

    // do two edges of the outline cross properly?  (an outline gdstk computes for a path may do that: strong
    // tapers with round joins; what region such an outline "covers" depends on a fill rule the format does not
    // have, so the region comparison is only made for outlines that do not cross themselves)
    static bool crosses_itself(const region::Poly& p) {
        size_t n = p.size();
        if (n > 1500) return false;  // (quadratic test; long outlines are the writer's business elsewhere)
        auto cr = [](const canon::IPt& a, const canon::IPt& b, const canon::IPt& c) {
            return (__int128)(b.x - a.x) * (c.y - a.y) - (__int128)(b.y - a.y) * (c.x - a.x);
        };
        // a vertex that occurs twice closes a loop on itself (what the loop encloses is counted once or twice
        // depending on the fill rule) - unless it is an end of a seam, an edge that is walked in both directions
        {
            std::set<std::pair<int64_t, int64_t>> seam_ends;
            std::map<std::pair<std::pair<int64_t, int64_t>, std::pair<int64_t, int64_t>>, int> edges;
            for (size_t i = 0; i < n; i++) edges[{{p[i].x, p[i].y}, {p[(i + 1) % n].x, p[(i + 1) % n].y}}]++;
            for (auto& e : edges)
                if (edges.count({e.first.second, e.first.first})) {
                    seam_ends.insert(e.first.first);
                    seam_ends.insert(e.first.second);
                }
            std::map<std::pair<int64_t, int64_t>, int> seen;
            for (size_t i = 0; i < n; i++)
                if (++seen[{p[i].x, p[i].y}] > 1 && !seam_ends.count({p[i].x, p[i].y})) return true;
        }
        for (size_t i = 0; i < n; i++)
            for (size_t j = i + 2; j < n; j++) {
                if (i == 0 && j == n - 1) continue;
                const canon::IPt &a = p[i], &b = p[(i + 1) % n], &c = p[j], &d = p[(j + 1) % n];
                __int128 d1 = cr(c, d, a), d2 = cr(c, d, b), d3 = cr(a, b, c), d4 = cr(a, b, d);
                if (((d1 > 0 && d2 < 0) || (d1 < 0 && d2 > 0)) && ((d3 > 0 && d4 < 0) || (d3 < 0 && d4 > 0))) return true;
                // touching counts too (on the grid a crossing often degenerates into a vertex on an edge), except
                // where two edges merely share an end point or are the two directions of a seam (rings)
                auto same = [](const canon::IPt& u, const canon::IPt& v) { return u.x == v.x && u.y == v.y; };
                if ((same(a, d) && same(b, c)) || (same(a, c) && same(b, d))) continue;
                auto inside = [&](const canon::IPt& u, const canon::IPt& v, const canon::IPt& w, __int128 dd) {
                    // w strictly inside segment u-v (collinear and between, not an end point)
                    if (dd != 0 || same(w, u) || same(w, v)) return false;
                    return std::min(u.x, v.x) <= w.x && w.x <= std::max(u.x, v.x) && std::min(u.y, v.y) <= w.y && w.y <= std::max(u.y, v.y);
                };
                if (inside(c, d, a, d1) || inside(c, d, b, d2) || inside(a, b, c, d3) || inside(a, b, d, d4)) return true;
            }
        return false;
    }

    bool check_regions(const Expect& E, const canon::CLib& got, uint64_t max_points, const std::string& vprop, const J& ctx) {
        for (auto& ckv : E.region) {
            auto git = got.cells.find(ckv.first);
            for (auto& tkv : ckv.second) {
                bool crossing = false;
                for (auto& o : tkv.second) crossing = crossing || crosses_itself(o);
                if (crossing) {
                    count("region_comparisons_skipped_outline_crosses_itself");
                    continue;
                }
                std::vector<region::Poly> pieces;
                if (git != got.cells.end()) {
                    auto rit = git->second.region.find(tkv.first);
                    if (rit != git->second.region.end()) pieces = rit->second;
                }
                region::Result rr = region::compare(tkv.second, pieces, seed ^ tkv.first, max_points > 4 ? max_points : 0);
                count("region_comparisons");
                count("region_samples", rr.samples_used);
                if (!rr.same) {
                    viol(vprop, "region", "cell '" + ckv.first + "' tag " + canon::tag_str((uint32_t)tkv.first, (uint32_t)(tkv.first >> 32)) +
                                              ": re-loaded pieces do not cover the region of the original: " + rr.why, ctx);
                    return false;
                }
            }
        }
        return true;
    }

    Library do_read_gds(const std::string& file, const J& op, ErrorCode& ec, bool& returned) {
        Library lib = {};
        Set<Tag> tags = {};
        bool use_filter = op.at("filter").k == J::Arr;
        returned = guarded([&]() {
            if (use_filter && op.at("filter_build").k == J::Arr) {
                // the set is put together the way a caller prunes a summary: more tags go in, in some order, and
                // those that are not wanted are taken out again; what is left is "filter"
                for (auto& t : op.at("filter_build").a) tags.add(make_tag((uint32_t)t.a[0].i, (uint32_t)t.a[1].i));
                for (auto& t : op.at("filter_build").a)
                    if (t.a.size() > 2 && t.a[2].i == 0) tags.del(make_tag((uint32_t)t.a[0].i, (uint32_t)t.a[1].i));
                count("filters_built_with_deletions");
            } else if (use_filter)
                for (auto& t : op.at("filter").a) tags.add(make_tag((uint32_t)t.a[0].i, (uint32_t)t.a[1].i));
            lib = read_gds(file.c_str(), op.getd("unit", 0), op.getd("tol", 0), use_filter ? &tags : NULL, &ec);
        });
        guarded([&]() { tags.clear(); });
        return lib;
    }

    // load a GDSII file with the full reader and compare with an expectation
    void op_load_check(const J& op) {
        std::string file = op.gets("file");
        if (!W->fs.exists(file)) return;
        FileInfo& fi = finfo[file];
        ErrorCode ec = ErrorCode::NoError;
        bool returned = false;
        Library lib = do_read_gds(file, op, ec, returned);
        J ctx = J::obj();
        ctx.set("file_state", "complete");
        ctx.set("writer", fi.writer);
        if (op.getd("unit", 0) > 0) ctx.set("unit_arg", true);
        if (op.at("filter").k == J::Arr) ctx.set("filtered", true);
        count("load_check");
        if (!returned) {
            drain_seam_violations(prop, ctx);
            check_handles(prop, ctx);
            return;
        }
        const J& ex = op.at("expect");
        Expect E;
        bool have = false;
        uint64_t max_points = (uint64_t)ex.geti("max_points", (int64_t)fi.max_points);
        {
            uint64_t mp_class = max_points == 0 ? 0 : (max_points < 16 ? 1 : (max_points < 8190 ? 2 : 3));
            uint64_t a = mp_class | (fi.writer == "writer" ? 8 : (fi.writer == "peer" ? 16 : 0)) | (ex.has("canon") ? 32 : 0) |
                         (op.getd("unit", 0) > 0 ? 64 : 0) | (op.at("filter").k == J::Arr ? 128 : 0);
            uint64_t b = 0;
            if (fi.writer == "peer") b = fnv(finfo[file].dec.error) ^ (fi.peer_unsupported ? 1 : 0);
            feature_state("load_check", ex.has("model") ? (int)ex.geti("model") : fi.model, a, b ^ (uint64_t)(ex.has("canon") ? step : 0));
        }
        if (ex.has("model")) {
            int k = (int)ex.geti("model");
            if (k >= 0 && k < (int)models.size()) {
                if (fi.writer == "peer") {
                    canon::Options o;
                    E.c = canon::from_model(models[k], o);
                } else {
                    E = expect_gds(k, max_points);
                }
                have = true;
            }
        } else if (ex.has("canon") && canons.count(ex.gets("canon"))) {
            E.c = canons[ex.gets("canon")];
            have = true;
        }
        bridge::ExtractOptions xo;
        xo.mode = canon::GDS;
        xo.region_tags = E.region_tags;
        canon::CLib got;
        guarded([&]() { got = bridge::extract(lib, xo); });
        if (have) {
            // error code: what the file legitimately provokes
            bool dangling = false;
            for (auto& kv : E.c.cells) (void)kv;
            if (ex.has("model")) {
                const model::MLib& m = models[ex.geti("model")];
                for (auto& c : m.cells)
                    for (auto& r : c.refs)
                        if (!m.in_lib(r.target)) dangling = true;
            }
            ErrorCode want = ErrorCode::NoError;
            if (dangling) want = ErrorCode::MissingReference;
            bool code_ok = ec == want || (fi.peer_unsupported && (ec == ErrorCode::UnsupportedRecord || ec == want)) ||
                           (ex.has("canon"));
            if (!code_ok) {
                viol(prop, "error_code", std::string("read_gds reported ") + bridge::error_name(ec) + " for a valid file (expected " + bridge::error_name(want) + ")", ctx);
            } else if (lib.cell_array.count == 0 && !E.c.cells.empty()) {
                viol(prop, "cells", std::string("read_gds returned an empty library, code ") + bridge::error_name(ec), ctx);
            } else {
                canon::CLib want_c = E.c;
                if (op.at("filter").k == J::Arr) {
                    std::set<uint64_t> keep;
                    for (auto& t : op.at("filter").a) keep.insert(((uint64_t)t.a[1].i << 32) | (uint64_t)t.a[0].i);
                    filter_canon(want_c, keep);
                    for (auto& ckv : E.region)
                        for (auto it = ckv.second.begin(); it != ckv.second.end();)
                            it = keep.count(it->first) ? std::next(it) : ckv.second.erase(it);
                }
                bool check_unit = !(op.getd("unit", 0) > 0);
                if (!check_unit && !canon::rel_close(got.unit, op.getd("unit"))) {
                    viol(prop, "unit", "read_gds with unit=" + canon::real_str(op.getd("unit")) + " returned a library with unit " + canon::real_str(got.unit), ctx);
                }
                std::string clause, why;
                if (canon::differ(want_c, got, check_unit, clause, why)) {
                    if (ex.has("canon")) ctx.set("expect", "canon");
                    if (clause == "paths") {
                        // narrow description of the situation: did the cell hold paths whose consecutive
                        // vertices were at most one grid step apart when it was loaded the time before?
                        size_t q0 = why.find("cell '"), q1 = q0 == std::string::npos ? q0 : why.find("':", q0);
                        if (q1 != std::string::npos) {
                            std::string cname = why.substr(q0 + 6, q1 - q0 - 6);
                            auto it = want_c.cells.find(cname);
                            if (it != want_c.cells.end()) {
                                ctx.set("cell_had_path_vertices_one_grid_step_apart", it->second.close_path_vertices > 0);
                                ctx.set("a_vertex_was_strictly_within_tolerance", noise_cells_of_file[file].count(cname) > 0);
                            }
                        }
                    }
                    viol(prop, clause, why, ctx);
                } else {
                    check_regions(E, got, max_points, prop, ctx);
                    // a load with a target unit (or a filter) is the native load rescaled: that includes the
                    // curve tolerance the loaded paths carry (it drives later outlines and re-saves)
                    if (ex.has("canon") && !op.has("tol")) {
                        for (auto& kv : got.cells) {
                            auto wit = want_c.cells.find(kv.first);
                            if (wit == want_c.cells.end()) continue;
                            for (auto& t : kv.second.path_tolerances)
                                if (!wit->second.path_tolerances.empty() && !wit->second.path_tolerances.count(t)) {
                                    viol(prop, "path_tolerance", "paths of cell '" + kv.first + "' were loaded with a curve tolerance of " + t +
                                                                     " grid steps; the reference load of the same file gave " + *wit->second.path_tolerances.begin(), ctx);
                                    break;
                                }
                        }
                    }
                }
            }
        }
        if (op.has("keep") && lib.name == NULL) {
            // a failed load leaves nothing to save again
            guarded([&]() { lib.free_all(); });
        } else if (op.has("keep")) {
            std::string name = op.gets("keep");
            // later cycles compare everything as lines: pieces are ordinary polygons by then
            bridge::ExtractOptions xo2;
            canon::CLib full;
            guarded([&]() { full = bridge::extract(lib, xo2); });
            if (have && ex.has("model")) {
                full.unit = E.c.unit;  // drift is measured against the original, not the previous cycle
                full.precision = E.c.precision;
            } else if (have) {
                full.unit = E.c.unit;
                full.precision = E.c.precision;
            }
            canons[name] = full;
            canon_file[name] = file;
            if (libs.count(name)) guarded([&]() { libs[name].free_all(); });
            libs[name] = lib;
        } else {
            guarded([&]() { lib.free_all(); });
        }
        drain_seam_violations(prop, ctx);
        check_handles(prop, ctx);
    }

    // Which cells of a re-saved file descend from a load in which some path vertex lay strictly within the
    // path's tolerance of its predecessor (computed at load time with the writer's own comparison)?  That
    // is the exact precondition of the known loss of a vertex on re-save; any other loss is a new violation.
    std::map<std::string, std::set<std::string>> noise_cells_of_file;
    std::map<std::string, std::string> canon_file;
    void note_noise_chain(const std::string& from, const std::string& file) {
        std::set<std::string> s;
        auto cf = canon_file.find(from);
        if (cf != canon_file.end()) s = noise_cells_of_file[cf->second];
        auto cn = canons.find(from);
        if (cn != canons.end())
            for (auto& kv : cn->second.cells)
                if (kv.second.strict_tolerance_drops > 0) s.insert(kv.first);
        noise_cells_of_file[file] = s;
    }

    // save a previously loaded library again (cycles >= 2)
    void op_resave_gds(const J& op) {
        std::string from = op.gets("from"), file = op.gets("file");
        if (!libs.count(from)) return;
        Library& lib = libs[from];
        if (lib.name == NULL) return;
        tm ts;
        bool have_ts = tm_from_json(op.at("ts"), ts);
        tm given = ts;
        if (!have_ts) sim::civil_from_time(W->clock.now, &given);
        bool via_writer = op.gets("via") == "writer";
        uint64_t max_points = (uint64_t)op.geti("max_points");
        ErrorCode ec = ErrorCode::NoError;
        guarded([&]() {
            set_policy(op);
            if (!via_writer) {
                ec = lib.write_gds(file.c_str(), max_points, have_ts ? &ts : NULL);
            } else {
                GdsWriter w = gdswriter_init(file.c_str(), lib.name, lib.unit, lib.precision, max_points, have_ts ? &ts : NULL, &ec);
                if (w.out) {
                    for (uint64_t i = 0; i < lib.cell_array.count; i++) w.write_cell(*lib.cell_array[i]);
                    w.close();
                }
            }
        });
        clear_policy();
        note_saved(file, op, "gds", true, given);
        finfo[file].writer = via_writer ? "writer" : "lib";
        note_noise_chain(from, file);
        count("resave_gds");
        J ctx = J::obj();
        drain_seam_violations(prop, ctx);
        check_handles(prop, ctx);
    }

    // the independent strict decoder reads what gdstk wrote
    void op_peer_check(const J& op) {
        std::string file = op.gets("file");
        if (!W->fs.exists(file)) return;
        FileInfo& fi = finfo[file];
        gdspeer::Decoded& d = truth(file);
        J ctx = J::obj();
        ctx.set("writer", fi.writer);
        count("peer_check");
        feature_state("peer_check", fi.model, fi.max_points == 0 ? 0 : (fi.max_points < 16 ? 1 : 2), fi.writer == "writer");
        res.counters["peer_decoded_boundary"] += d.census.boundary;
        res.counters["peer_decoded_path"] += d.census.path;
        res.counters["peer_decoded_sref"] += d.census.sref;
        res.counters["peer_decoded_aref"] += d.census.aref;
        res.counters["peer_decoded_text"] += d.census.text;
        res.counters["peer_decoded_multi_xy"] += d.census.multi_xy;
        if (!d.ok) {
            viol(prop, "peer_rejects_container", "the independent decoder cannot read the file gdstk wrote: " + d.error, ctx);
            return;
        }
        if (!d.strict_ok) {
            viol(prop, "peer_strict", "the file gdstk wrote breaks a format rule: " + d.error, ctx);
            return;
        }
        const J& ex = op.at("expect");
        if (!ex.has("model")) return;
        int k = (int)ex.geti("model");
        if (k < 0 || k >= (int)models.size()) return;
        uint64_t max_points = (uint64_t)ex.geti("max_points", (int64_t)fi.max_points);
        Expect E = expect_gds(k, max_points);
        // decoded content -> canonical form (region tags collected the same way as for a load)
        canon::Options o;
        canon::CLib got = canon::from_model(d.lib, o);
        for (auto& ckv : E.region_tags) {
            auto git = got.cells.find(ckv.first);
            if (git == got.cells.end()) continue;
            const model::MCell* dc = d.lib.find(ckv.first);
            if (!dc) continue;
            std::vector<std::string> keep;
            canon::CCell& gc = git->second;
            gc.polys.clear();
            for (auto& p : dc->polys) {
                uint64_t tag = ((uint64_t)p.dtype << 32) | p.layer;
                std::vector<canon::IPt> pts;
                for (auto& q : p.pts) pts.push_back(canon::rgrid(q));
                if (ckv.second.count(tag)) {
                    canon::dedup(pts, true);
                    if (pts.size() >= 3) gc.region[tag].push_back(pts);
                } else {
                    bool ok;
                    std::string line = canon::poly_line(p.layer, p.dtype, pts, {}, canon::props_str(p.props, canon::GDS), ok);
                    if (ok) gc.polys.push_back(line);
                }
            }
            std::sort(gc.polys.begin(), gc.polys.end());
        }
        std::string clause, why;
        if (canon::differ(E.c, got, true, clause, why)) {
            viol(prop, "peer_" + clause, "decoded by the independent decoder: " + why, ctx);
        } else {
            check_regions(E, got, max_points, prop, ctx);
        }
        // timestamps: BGNLIB and every BGNSTR carry what the writer was given, twice
        if (fi.ts_known) {
            bool ok = true;
            for (int i = 0; i < 12; i++) ok = ok && d.lib_ts[i] == fi.ts[i % 6];
            for (auto& t : d.str_ts)
                for (int i = 0; i < 12; i++) ok = ok && t[i] == fi.ts[i % 6];
            if (!ok) viol(prop, "peer_timestamp", "BGNLIB/BGNSTR do not carry the timestamp the writer was given (" + ts_str(fi.ts) + ")", ctx);
        }
    }


    // ============================================================= C17: partial / alternative readers
    static std::vector<std::string> sorted(std::vector<std::string> v) {
        std::sort(v.begin(), v.end());
        return v;
    }

    void op_info_check(const J& op) {
        std::string file = op.gets("file");
        if (!W->fs.exists(file)) return;
        FileInfo& fi = finfo[file];
        J ctx = J::obj();
        ctx.set("file_state", "complete");
        ctx.set("writer", fi.writer);
        gdspeer::Decoded& d = truth(file);
        if (!d.ok) return;
        LibraryInfo info = {};
        ErrorCode ec = ErrorCode::NoError;
        bool returned = guarded([&]() { ec = gds_info(file.c_str(), info); });
        count("info_check");
        feature_state("info_check", fi.model, fi.writer == "peer", 0);
        if (returned) {
            if (ec != ErrorCode::NoError) {
                viol("C17", "complete_file_rejected", std::string("gds_info returned ") + bridge::error_name(ec) + " for a complete file", ctx);
            } else {
                // against the full reader
                ErrorCode ec2 = ErrorCode::NoError;
                bool r2 = false;
                J none = J::obj();
                Library lib = do_read_gds(file, none, ec2, r2);
                if (r2) {
                    std::vector<std::string> names_info, names_full;
                    for (uint64_t i = 0; i < info.cell_names.count; i++) names_info.push_back(info.cell_names[i]);
                    uint64_t np = 0, nw = 0, nr = 0, nl = 0;
                    std::set<uint64_t> stags, ltags;
                    for (uint64_t i = 0; i < lib.cell_array.count; i++) {
                        Cell* c = lib.cell_array[i];
                        names_full.push_back(c->name ? c->name : "");
                        np += c->polygon_array.count;
                        nw += c->flexpath_array.count + c->robustpath_array.count;
                        nr += c->reference_array.count;
                        nl += c->label_array.count;
                        for (uint64_t k = 0; k < c->polygon_array.count; k++) stags.insert(c->polygon_array[k]->tag);
                        for (uint64_t k = 0; k < c->flexpath_array.count; k++)
                            for (uint64_t e = 0; e < c->flexpath_array[k]->num_elements; e++) stags.insert(c->flexpath_array[k]->elements[e].tag);
                        for (uint64_t k = 0; k < c->label_array.count; k++) ltags.insert(c->label_array[k]->tag);
                    }
                    std::set<uint64_t> istags, iltags;
                    guarded([&]() {
                        for (SetItem<Tag>* it = info.shape_tags.next(NULL); it; it = info.shape_tags.next(it)) istags.insert(it->value);
                        for (SetItem<Tag>* it = info.label_tags.next(NULL); it; it = info.label_tags.next(it)) iltags.insert(it->value);
                    });
                    auto fail = [&](const std::string& clause, const std::string& what) { viol("C17", clause, what, ctx); };
                    if (sorted(names_info) != sorted(names_full))
                        fail("info_cell_names", "gds_info lists " + std::to_string(names_info.size()) + " cell names, the full load has " + std::to_string(names_full.size()) + " cells (or the names differ)");
                    else if (info.num_polygons != np)
                        fail("info_num_polygons", "gds_info counts " + std::to_string(info.num_polygons) + " polygons, the full load holds " + std::to_string(np));
                    else if (info.num_paths != nw)
                        fail("info_num_paths", "gds_info counts " + std::to_string(info.num_paths) + " paths, the full load holds " + std::to_string(nw));
                    else if (info.num_references != nr)
                        fail("info_num_references", "gds_info counts " + std::to_string(info.num_references) + " references, the full load holds " + std::to_string(nr));
                    else if (info.num_labels != nl)
                        fail("info_num_labels", "gds_info counts " + std::to_string(info.num_labels) + " labels, the full load holds " + std::to_string(nl));
                    else if (istags != stags)
                        fail("info_shape_tags", "gds_info reports " + std::to_string(istags.size()) + " shape tags, the full load uses " + std::to_string(stags.size()) + " (or the sets differ)");
                    else if (iltags != ltags)
                        fail("info_label_tags", "gds_info reports " + std::to_string(iltags.size()) + " label tags, the full load uses " + std::to_string(ltags.size()) + " (or the sets differ)");
                    else if (!canon::rel_close(info.unit, lib.unit) || !canon::rel_close(info.precision, lib.precision))
                        fail("info_units", "gds_info unit/precision " + canon::real_str(info.unit) + "/" + canon::real_str(info.precision) + " differ from the full load " + canon::real_str(lib.unit) + "/" + canon::real_str(lib.precision));
                    // and against the independent decoder
                    else if (sorted(names_info) != sorted(d.cell_names) || info.num_polygons != d.num_polygons || info.num_paths != d.num_paths ||
                             info.num_references != d.num_references || info.num_labels != d.num_labels)
                        fail("info_vs_peer", "gds_info summary differs from the independent decoder's census of the same bytes");
                    guarded([&]() { lib.free_all(); });
                }
            }
        }
        guarded([&]() { info.clear(); });
        drain_seam_violations(prop, ctx);
        check_handles(prop, ctx);
    }

    // canonical lines of one cell of a loaded library
    bool load_canon(const std::string& file, canon::CLib& out, ErrorCode& ec) {
        bool returned = false;
        J none = J::obj();
        Library lib = do_read_gds(file, none, ec, returned);
        if (!returned) return false;
        bridge::ExtractOptions xo;
        bool ok = guarded([&]() { out = bridge::extract(lib, xo); });
        guarded([&]() { lib.free_all(); });
        return ok;
    }

    void op_raw_open(const J& op) {
        std::string file = op.gets("file"), slot = op.gets("slot");
        if (!W->fs.exists(file) || raws.count(slot)) return;
        J ctx = J::obj();
        ctx.set("file_state", "complete");
        ctx.set("writer", finfo[file].writer);
        gdspeer::Decoded& d = truth(file);
        RawHold h;
        ErrorCode ec = ErrorCode::NoError;
        bool returned = guarded([&]() { h.map = read_rawcells(file.c_str(), &ec); });
        count("raw_open");
        if (!returned) {
            drain_seam_violations(prop, ctx);
            check_handles(prop, ctx);
            return;
        }
        h.src = file;
        h.alive = true;
        for (MapItem<RawCell*>* it = h.map.next(NULL); it; it = h.map.next(it)) {
            h.cells.push_back(it->value);
            h.names.push_back(it->value->name ? it->value->name : "");
            h.gone.push_back(false);
        }
        h.live = h.cells.size();
        if (d.ok) {
            bool dangling = false;
            std::set<std::string> have(d.cell_names.begin(), d.cell_names.end());
            for (auto& sr : d.structs)
                for (auto& n : sr.snames)
                    if (!have.count(n)) dangling = true;
            if (ec != ErrorCode::NoError && !(dangling && ec == ErrorCode::MissingReference))
                viol("C17", "complete_file_rejected", std::string("read_rawcells returned ") + bridge::error_name(ec) + " for a complete file", ctx);
            else if (sorted(h.names) != sorted(d.cell_names))
                viol("C17", "rawcell_names", "read_rawcells returned " + std::to_string(h.names.size()) + " cells, the file holds " + std::to_string(d.cell_names.size()) + " structures (or the names differ)", ctx);
            else {
                // every dependency is one of the raw cells of this file, and a raw cell depends on exactly
                // the structures of the file that it references (what a copy has to bring along)
                std::map<const RawCell*, std::string> mine;
                for (size_t i = 0; i < h.cells.size(); i++) mine[h.cells[i]] = h.names[i];
                std::map<std::string, std::set<std::string>> want;
                for (auto& sr : d.structs)
                    for (auto& n : sr.snames)
                        if (have.count(n)) want[sr.name].insert(n);
                for (size_t i = 0; i < h.cells.size(); i++) {
                    std::set<std::string> got;
                    bool stray = false;
                    for (uint64_t k = 0; k < h.cells[i]->dependencies.count; k++) {
                        auto f = mine.find(h.cells[i]->dependencies[k]);
                        if (f == mine.end()) stray = true;
                        else got.insert(f->second);
                    }
                    if (stray) {
                        viol("C17", "rawcell_dependencies", "a dependency of raw cell '" + h.names[i] + "' is not one of the raw cells read from the file", ctx);
                        break;
                    }
                    if (got != want[h.names[i]]) {
                        viol("C17", "rawcell_dependencies", "raw cell '" + h.names[i] + "' lists " + std::to_string(got.size()) + " dependencies, its structure references " + std::to_string(want[h.names[i]].size()) + " structures of the file (or the sets differ)", ctx);
                        break;
                    }
                }
                count("rawcell_dependencies_checked");
                if (dangling) count("rawcell_dependencies_checked_with_absent_targets");
            }
        }
        raws[slot] = h;
        drain_seam_violations(prop, ctx);
        check_handles(prop, ctx);
    }

    // indices (closed under dependencies) of the raw cells selected by `pick`
    std::vector<size_t> raw_selection(RawHold& h, const J& pick) {
        std::set<size_t> sel;
        std::vector<size_t> work;
        for (auto& p : pick.a)
            if (!h.cells.empty()) work.push_back((size_t)((uint64_t)p.i % h.cells.size()));
        while (!work.empty()) {
            size_t i = work.back();
            work.pop_back();
            if (h.cells[i] == nullptr || !sel.insert(i).second) continue;  // a cell already copied once may be copied again
            RawCell* rc = h.cells[i];
            for (uint64_t k = 0; k < rc->dependencies.count; k++)
                for (size_t j = 0; j < h.cells.size(); j++)
                    if (h.cells[j] == rc->dependencies[k]) work.push_back(j);
        }
        return std::vector<size_t>(sel.begin(), sel.end());
    }

    void raw_mark_drained(RawHold& h, size_t i) {
        if (!h.gone[i] && h.cells[i]->source == NULL) {
            // the cell now owns its bytes; it no longer keeps the source open
            h.gone[i] = true;
            h.live--;
        }
    }

    // compare the cells `names` of file `dest` with the same cells of `src_canon`
    void compare_copied(const std::string& dest, const std::vector<std::string>& names, const canon::CLib& src_canon, const J& ctx) {
        canon::CLib got;
        ErrorCode ec = ErrorCode::NoError;
        if (!load_canon(dest, got, ec)) return;
        for (auto& n : names) {
            auto a = src_canon.cells.find(n);
            auto b = got.cells.find(n);
            if (a == src_canon.cells.end()) continue;
            if (b == got.cells.end()) {
                viol("C17", "rawcell_copy_missing", "raw cell '" + n + "' copied into " + dest + " is not there when the file is loaded (read code " + bridge::error_name(ec) + ")", ctx);
                return;
            }
            canon::CLib ea, eb;
            ea.precision = eb.precision = 1;
            ea.cells[n] = a->second;
            eb.cells[n] = b->second;
            std::string clause, why;
            if (canon::differ(ea, eb, false, clause, why)) {
                viol("C17", "rawcell_copy_" + clause, "raw cell copied into " + dest + " loads differently from the original: " + why, ctx);
                return;
            }
        }
        if (!canon::rel_close(got.unit, src_canon.unit) || !canon::rel_close(got.precision, src_canon.precision)) {
            // units are the caller's business (the new library was given the source's units)
            count("rawcopy_units_differ");
        }
    }

    void op_raw_drain(const J& op) {
        std::string slot = op.gets("slot"), dest = op.gets("file");
        if (!raws.count(slot) || !raws[slot].alive) return;
        RawHold& h = raws[slot];
        // precondition of the property ("into another file"): never write over a file that is held open
        for (auto& kv : raws)
            if (kv.second.alive && kv.second.live > 0 && kv.second.src == dest) return;
        for (auto& kv : writers)
            if (kv.second.open && kv.second.file == dest) return;
        std::vector<size_t> sel = raw_selection(h, op.at("pick"));
        if (sel.empty()) return;
        J ctx = J::obj();
        ctx.set("via", "lib");
        ctx.set("writer", finfo[h.src].writer);
        // what the source loads to at this instant
        canon::CLib src_canon;
        ErrorCode ecs = ErrorCode::NoError;
        bool have_src = load_canon(h.src, src_canon, ecs);
        gdspeer::Decoded& d = truth(h.src);
        Library lib = {};
        ErrorCode ec = ErrorCode::NoError;
        tm ts;
        bool have_ts = tm_from_json(op.at("ts"), ts);
        std::vector<std::string> names;
        bool ok = guarded([&]() {
            lib.init("RAWCOPY", d.ok ? d.lib.unit : 1e-6, d.ok ? d.lib.precision : 1e-9);
            for (size_t i : sel) {
                lib.rawcell_array.append(h.cells[i]);
                names.push_back(h.names[i]);
            }
            set_policy(op);
            ec = lib.write_gds(dest.c_str(), 0, have_ts ? &ts : NULL);
        });
        clear_policy();
        guarded([&]() { lib.clear(); });
        count("raw_drain_lib");
        count("raw_cells_copied", sel.size());
        for (size_t i : sel) raw_mark_drained(h, i);
        FileInfo fi;
        fi.fmt = "gds";
        fi.writer = "rawcopy";
        finfo[dest] = fi;
        if (ok && ec != ErrorCode::NoError)
            viol("C17", "rawcell_copy_error", std::string("write_gds of raw cells returned ") + bridge::error_name(ec), ctx);
        drain_seam_violations(prop, ctx);
        check_handles(prop, ctx);
        if (ok && have_src) compare_copied(dest, names, src_canon, ctx);
        drain_seam_violations(prop, ctx);
        check_handles(prop, ctx);
    }

    void op_raw_clear(const J& op) {
        std::string slot = op.gets("slot");
        if (!raws.count(slot) || !raws[slot].alive) return;
        RawHold& h = raws[slot];
        J ctx = J::obj();
        sim::Rng r((uint64_t)op.geti("order"));
        std::vector<size_t> order;
        for (size_t i = 0; i < h.cells.size(); i++) order.push_back(i);
        for (size_t i = order.size(); i > 1; i--) std::swap(order[i - 1], order[r.below(i)]);
        uint64_t limit = op.has("count") ? (uint64_t)op.geti("count") : order.size();
        uint64_t done = 0;
        for (size_t i : order) {
            if (done >= limit) break;
            if (h.cells[i] == nullptr) continue;
            bool held = !h.gone[i];
            guarded([&]() {
                h.cells[i]->clear();
                free_allocation(h.cells[i]);
            });
            h.cells[i] = nullptr;
            if (held) {
                h.gone[i] = true;
                h.live--;
            }
            done++;
            drain_seam_violations(prop, ctx);
            check_handles(prop, ctx);
        }
        bool all = true;
        for (auto* c : h.cells) all = all && c == nullptr;
        if (all) {
            guarded([&]() { h.map.clear(); });
            h.alive = false;
        }
        count("raw_clear");
    }

    void release_raw(RawHold& h) {
        for (size_t i = 0; i < h.cells.size(); i++) {
            if (!h.cells[i]) continue;
            guarded([&]() {
                h.cells[i]->clear();
                free_allocation(h.cells[i]);
            });
            h.cells[i] = nullptr;
        }
        guarded([&]() { h.map.clear(); });
        h.live = 0;
        h.alive = false;
    }

    // ------------------------------------------------------------- incremental writer sessions
    void op_writer_open(const J& op) {
        std::string w = op.gets("w"), file = op.gets("file");
        if (writers.count(w)) return;
        for (auto& kv : raws)
            if (kv.second.alive && kv.second.live > 0 && kv.second.src == file) return;
        for (auto& kv : writers)
            if (kv.second.open && kv.second.file == file) return;
        int k = (int)op.geti("model", -1);
        WriterSess s;
        s.file = file;
        s.model = k;
        double unit = 1e-6, precision = 1e-9;
        std::string slot = op.gets("units_of");
        if (raws.count(slot) && truth(raws[slot].src).ok) {
            unit = truth(raws[slot].src).lib.unit;
            precision = truth(raws[slot].src).lib.precision;
        } else if (k >= 0 && k < (int)models.size()) {
            unit = models[k].unit;
            precision = models[k].precision;
        }
        tm ts;
        bool have_ts = tm_from_json(op.at("ts"), ts);
        tm given = ts;
        if (!have_ts) sim::civil_from_time(W->clock.now, &given);
        ErrorCode ec = ErrorCode::NoError;
        J ctx = J::obj();
        std::string libname = op.getb("like_save") && k >= 0 && k < (int)models.size() ? models[k].name : std::string("SESSION");
        uint64_t max_points = (uint64_t)op.geti("max_points");
        s.max_points = max_points;
        bool ok = guarded([&]() {
            if (k >= 0 && k < (int)models.size()) s.built = bridge::build(models[k]);
            set_policy(op);
            s.w = gdswriter_init(file.c_str(), libname.c_str(), unit, precision, max_points, have_ts ? &ts : NULL, &ec);
        });
        clear_policy();
        if (ok && s.w.out) {
            s.open = true;
            FileInfo fi;
            fi.fmt = "gds";
            fi.writer = "session";
            fi.ts_known = true;
            fi.ts = ts6(given);
            fi.model = k;
            fi.ref = op.gets("ref");
            if (!fi.ref.empty()) fi.damage = "open_session";
            finfo[file] = fi;
            writers[w] = s;
            count("writer_open");
        } else if (s.built.alive) {
            guarded([&]() { s.built.destroy(); });
        }
        drain_seam_violations(prop, ctx);
        check_handles(prop, ctx);
    }

    std::map<std::string, std::vector<std::string>> session_raw_names;   // writer -> raw cell names written
    std::map<std::string, canon::CLib> session_src_canon;                // writer -> canon of the raw source at copy time
    std::map<std::string, std::vector<std::string>> session_cell_names;  // writer -> fresh cell names written

    void op_writer_cell(const J& op) {
        std::string w = op.gets("w");
        if (!writers.count(w) || !writers[w].open) return;
        WriterSess& s = writers[w];
        if (!s.built.alive || s.built.lib.cell_array.count == 0) return;
        uint64_t i = (uint64_t)op.geti("cell") % s.built.lib.cell_array.count;
        Cell* c = s.built.lib.cell_array[i];
        for (auto& n : session_cell_names[w])
            if (n == c->name) return;  // a structure name may appear once per file
        for (auto& n : session_raw_names[w])
            if (n == c->name) return;
        J ctx = J::obj();
        guarded([&]() { s.w.write_cell(*c); });
        session_cell_names[w].push_back(c->name);
        count("writer_cell");
        drain_seam_violations(prop, ctx);
        check_handles(prop, ctx);
    }

    void op_writer_raw(const J& op) {
        std::string w = op.gets("w"), slot = op.gets("slot");
        if (!writers.count(w) || !writers[w].open || !raws.count(slot) || !raws[slot].alive) return;
        WriterSess& s = writers[w];
        RawHold& h = raws[slot];
        std::vector<size_t> sel = raw_selection(h, op.at("pick"));
        J ctx = J::obj();
        ctx.set("via", "writer");
        if (!session_src_canon.count(w)) {
            canon::CLib sc;
            ErrorCode ecs = ErrorCode::NoError;
            if (load_canon(h.src, sc, ecs)) session_src_canon[w] = sc;
        }
        for (size_t i : sel) {
            bool dup = false;
            for (auto& n : session_raw_names[w]) dup = dup || n == h.names[i];
            for (auto& n : session_cell_names[w]) dup = dup || n == h.names[i];
            if (dup) continue;
            guarded([&]() { s.w.write_rawcell(*h.cells[i]); });
            session_raw_names[w].push_back(h.names[i]);
            raw_mark_drained(h, i);
            count("writer_raw");
            drain_seam_violations(prop, ctx);
            check_handles(prop, ctx);
        }
    }

    void op_writer_close(const J& op) {
        std::string w = op.gets("w");
        if (!writers.count(w) || !writers[w].open) return;
        WriterSess& s = writers[w];
        J ctx = J::obj();
        ctx.set("via", "writer");
        guarded([&]() { s.w.close(); });
        s.open = false;
        count("writer_close");
        drain_seam_violations(prop, ctx);
        check_handles(prop, ctx);
        finfo[s.file].have_dec = false;
        if (finfo[s.file].damage == "open_session") finfo[s.file].damage = "";
        // the session's file: strict container, raw cells load as in their source, fresh cells as their model
        gdspeer::Decoded& d = truth(s.file);
        // (raw cells from a file with tags above 32767 carry fields outside the format's range: no strictness then)
        if (!d.ok || (!d.strict_ok && !op.getb("lenient_container"))) {
            viol("C17", "session_file_malformed", "the file written by a GdsWriter session is rejected by the independent decoder: " + d.error, ctx);
        } else {
            // every BGNSTR written by write_cell carries the timestamp of the session, like BGNLIB
            // (raw cells keep the bytes of their source, so only files without them are judged)
            if (finfo[s.file].ts_known && session_raw_names[w].empty()) {
                bool ok_ts = true;
                for (int i = 0; i < 12; i++) ok_ts = ok_ts && d.lib_ts[i] == finfo[s.file].ts[i % 6];
                for (auto& t : d.str_ts)
                    for (int i = 0; i < 12; i++) ok_ts = ok_ts && t[i] == finfo[s.file].ts[i % 6];
                if (!ok_ts)
                    viol(prop == "C03" ? "C03" : "C17", "session_timestamp", "BGNLIB/BGNSTR of a GdsWriter session do not all carry the session's timestamp " + ts_str(finfo[s.file].ts), ctx);
            }
            if (session_src_canon.count(w)) compare_copied(s.file, session_raw_names[w], session_src_canon[w], ctx);
            if (prop == "C17" && s.model >= 0 && !session_cell_names[w].empty() && s.max_points <= 4) {
                Expect E = expect_gds(s.model, 0);
                canon::CLib got;
                ErrorCode ec = ErrorCode::NoError;
                if (load_canon(s.file, got, ec)) {
                    for (auto& n : session_cell_names[w]) {
                        auto a = E.c.cells.find(n);
                        auto b = got.cells.find(n);
                        if (a == E.c.cells.end()) continue;
                        if (b == got.cells.end()) {
                            viol("C17", "session_cell_missing", "cell '" + n + "' written by write_cell is missing when the session file is loaded", ctx);
                            break;
                        }
                        canon::CLib ea, eb;
                        ea.precision = eb.precision = 1;
                        ea.cells[n] = a->second;
                        eb.cells[n] = b->second;
                        std::string clause, why;
                        if (canon::differ(ea, eb, false, clause, why)) {
                            viol("C17", "session_cell_" + clause, "cell written by a GdsWriter session loads differently from the model: " + why, ctx);
                            break;
                        }
                    }
                }
            }
        }
        if (s.built.alive) guarded([&]() { s.built.destroy(); });
        session_raw_names.erase(w);
        session_cell_names.erase(w);
        session_src_canon.erase(w);
        drain_seam_violations(prop, ctx);
        check_handles(prop, ctx);
    }

    // ------------------------------------------------------------- in-place timestamp rewrite
    struct StampWatch {
        Exec* self;
        std::string file;
        std::vector<uint8_t> pre;
        std::vector<std::pair<uint32_t, uint32_t>> allowed;  // [begin, end)
        bool bad = false;
        uint64_t bad_off = 0;
        uint64_t writes = 0;
    };

    static void stamp_hook(sim::Handle* h, uint64_t off, const uint8_t* data, size_t n, void* ud) {
        StampWatch* sw = (StampWatch*)ud;
        if (h->name != sw->file) return;
        sw->writes++;
        const std::vector<uint8_t>& cur = h->file->data;
        if (cur.size() != sw->pre.size() && !sw->bad) {
            sw->bad = true;
            sw->bad_off = cur.size();
        }
        for (size_t i = 0; i < n && !sw->bad; i++) {
            uint64_t pos = off + i;
            if (pos >= sw->pre.size() || data[i] == sw->pre[pos]) continue;
            bool ok = false;
            for (auto& a : sw->allowed)
                if (pos >= a.first && pos < a.second) ok = true;
            if (!ok) {
                sw->bad = true;
                sw->bad_off = pos;
            }
        }
    }

    void op_stamp(const J& op) {
        std::string file = op.gets("file");
        if (!W->fs.exists(file)) return;
        for (auto& kv : writers)
            if (kv.second.open && kv.second.file == file) return;
        gdspeer::Decoded d = truth(file);  // pre-image
        if (!d.ok) return;
        FileInfo& fi = finfo[file];
        J ctx = J::obj();
        ctx.set("writer", fi.writer);
        tm nt;
        if (!tm_from_json(op.at("ts"), nt)) sim::civil_from_time(W->clock.now, &nt);
        // "all timestamps" includes the one the file already carries somewhere: the library's own (while
        // structures copied from elsewhere carry another) or one structure's
        std::string from = op.gets("ts_from");
        if (from == "library" || (from == "structure" && !d.str_ts.empty())) {
            const std::array<uint16_t, 12>& t = from == "library" ? d.lib_ts : d.str_ts[(size_t)op.geti("ts_index", 0) % d.str_ts.size()];
            nt = tm{};
            nt.tm_year = (int)t[0] - 1900;
            nt.tm_mon = (int)t[1] - 1;
            nt.tm_mday = t[2];
            nt.tm_hour = t[3];
            nt.tm_min = t[4];
            nt.tm_sec = t[5];
            count("stamp_with_a_timestamp_already_in_the_file");
        }
        StampWatch sw;
        sw.self = this;
        sw.file = file;
        sw.pre = W->fs.bytes(file);
        sw.allowed.push_back({d.lib_ts_payload, d.lib_ts_payload + 24});
        for (auto& sr : d.structs) sw.allowed.push_back({sr.ts_payload, sr.ts_payload + 24});
        uint64_t cw = 0, cl = 0;
        if (op.at("fault").k == J::Obj) {
            // clean run on a scratch copy gives the number of device writes for the modulo rule
            W->fs.put("/sim/.probe", sw.pre);
            J clean = op;
            clean.set("fault", J());
            set_policy(clean);
            uint64_t w0 = W->fs.n_dev_write;
            ErrorCode e0 = ErrorCode::NoError;
            guarded([&]() { gds_timestamp("/sim/.probe", &nt, &e0); });
            cw = W->fs.n_dev_write - w0;
            cl = sw.pre.size();
            W->fs.files.erase("/sim/.probe");
            clear_policy();
        }
        ErrorCode ec = ErrorCode::NoError;
        tm old = {};
        W->fs.write_hook = stamp_hook;
        W->fs.write_hook_ud = &sw;
        bool returned = guarded([&]() {
            set_policy(op, cw, cl);
            old = gds_timestamp(file.c_str(), &nt, &ec);
        });
        clear_policy();
        W->fs.write_hook = nullptr;
        W->fs.write_hook_ud = nullptr;
        fi.have_dec = false;
        bool faulty = op.at("fault").k == J::Obj;
        if (faulty) fi.damage = "stamp_torn";
        count(faulty ? "stamp_torn" : "stamp");
        res.counters["stamp_device_writes"] += sw.writes;
        feature_state("stamp", fi.model, faulty, d.structs.size() > 3 ? 3 : d.structs.size());
        if (sw.bad)
            viol("C17", "stamp_touches_other_bytes",
                 "gds_timestamp changed byte " + std::to_string(sw.bad_off) + " of " + file + ", which is outside every BGNLIB/BGNSTR timestamp field (or changed the file length)", ctx);
        if (returned && !faulty) {
            if (ec != ErrorCode::NoError) {
                viol("C17", "stamp_error", std::string("gds_timestamp returned ") + bridge::error_name(ec) + " while rewriting a complete file", ctx);
            } else {
                std::array<int64_t, 6> got = ts6_wide(old), want;
                for (int i = 0; i < 6; i++) want[i] = d.lib_ts[i];
                if (got != want)
                    viol("C17", "stamp_returns_wrong_old", "gds_timestamp returned " + ts_str(got) + " as the previous timestamp, the file stored " + ts_str(want), ctx);
                gdspeer::Decoded& nd = truth(file);
                std::array<uint16_t, 6> n6 = ts6(nt);
                bool all = nd.ok;
                for (int i = 0; i < 12 && all; i++) all = nd.lib_ts[i] == n6[i % 6];
                for (auto& t : nd.str_ts)
                    for (int i = 0; i < 12 && all; i++) all = t[i] == n6[i % 6];
                if (!all)
                    viol("C17", "stamp_incomplete", "after gds_timestamp not every BGNLIB/BGNSTR field carries the new timestamp " + ts_str(n6) + " twice", ctx);
                fi.ts_known = true;
                fi.ts = n6;
            }
        }
        drain_seam_violations(prop, ctx);
        check_handles(prop, ctx);
    }


    // ============================================================= OASIS (C02)
    static uint32_t crc32_ieee(const uint8_t* p, size_t n) {
        static uint32_t table[256];
        static bool init = false;
        if (!init) {
            for (uint32_t i = 0; i < 256; i++) {
                uint32_t c = i;
                for (int k = 0; k < 8; k++) c = (c & 1) ? (0xEDB88320u ^ (c >> 1)) : (c >> 1);
                table[i] = c;
            }
            init = true;
        }
        uint32_t c = 0xFFFFFFFFu;
        for (size_t i = 0; i < n; i++) c = table[(c ^ p[i]) & 0xFF] ^ (c >> 8);
        return c ^ 0xFFFFFFFFu;
    }

    Expect expect_oas(int k) {
        Expect E;
        const model::MLib& m = models[k];
        canon::Options o;
        o.mode = canon::OAS;
        E.c = canon::from_model(m, o);
        for (auto& mc : m.cells) {
            canon::CCell& cc = E.c.cells[mc.name];
            for (auto& p : mc.paths) {
                std::string props = canon::props_str(p.props, canon::OAS);
                if (!p.simple) {
                    std::vector<region::Poly> outl;
                    guarded([&]() { outl = bridge::path_outline(m, p, nullptr, false); });
                    for (auto& q : outl) {
                        bool ok;
                        std::string line = canon::poly_line(p.layer, p.dtype, q, canon::rep_grid(p.rep), props, ok);
                        if (ok) cc.polys.push_back(line);
                    }
                } else if (p.impl == 0 && p.nelem > 1 && p.bend > 0) {
                    std::vector<region::Poly> cl;
                    guarded([&]() { cl = bridge::flex_centres(m, p, false); });
                    for (auto& q : cl) {
                        bool ok;
                        std::string line = canon::path_line(canon::OAS, p.layer, p.dtype, q, 2 * canon::rgrid(p.hw), p.end,
                                                            canon::rgrid(p.eu), canon::rgrid(p.ev), true, canon::rep_grid(p.rep), props, ok);
                        if (ok) cc.paths.push_back(line);
                    }
                } else if (p.impl == 1) {
                    std::vector<region::Poly> cl;
                    guarded([&]() { cl = bridge::robust_centres(m, p, false); });
                    std::vector<canon::IPt> sp;
                    for (auto& q : p.spine) sp.push_back(canon::rgrid(q));
                    bool ok;
                    std::string raw = canon::path_line(canon::OAS, p.layer, p.dtype, sp, 2 * canon::rgrid(p.hw), p.end,
                                                       canon::rgrid(p.eu), canon::rgrid(p.ev), true, canon::rep_grid(p.rep), props, ok);
                    auto it = std::find(cc.paths.begin(), cc.paths.end(), raw);
                    if (it != cc.paths.end()) cc.paths.erase(it);
                    for (auto& q : cl) {
                        std::string line = canon::path_line(canon::OAS, p.layer, p.dtype, q, 2 * canon::rgrid(p.hw), p.end,
                                                            canon::rgrid(p.eu), canon::rgrid(p.ev), true, canon::rep_grid(p.rep), props, ok);
                        if (ok) cc.paths.push_back(line);
                    }
                }
            }
            std::sort(cc.polys.begin(), cc.polys.end());
            std::sort(cc.paths.begin(), cc.paths.end());
        }
        return E;
    }

    static double seg_dist(double px, double py, const canon::IPt& a, const canon::IPt& b) {
        double dx = (double)(b.x - a.x), dy = (double)(b.y - a.y);
        double l2 = dx * dx + dy * dy;
        double t = l2 > 0 ? ((px - a.x) * dx + (py - a.y) * dy) / l2 : 0;
        t = t < 0 ? 0 : (t > 1 ? 1 : t);
        return hypot(a.x + t * dx - px, a.y + t * dy - py);
    }
    static double boundary_dist(const canon::IPt& p, const std::vector<canon::IPt>& poly) {
        double best = 1e300;
        for (size_t i = 0; i < poly.size(); i++) best = std::min(best, seg_dist((double)p.x, (double)p.y, poly[i], poly[(i + 1) % poly.size()]));
        return best;
    }

    // Detected circles re-load as polygons "within the stated tolerances of the original": when the
    // exact vertex cycle of a polygon is missing, a found polygon with the same tag, repetition and
    // properties whose boundary stays within the tolerances of the original's boundary (both ways)
    // takes its place.  Bound: circle tolerance twice (fit + chord sagitta of the original), centre and
    // radius rounding, vertex rounding, and the reader's own sampling tolerance.
    void accept_circles(int k, double tol_user, double read_tol_user, Expect& E, const canon::CLib& got) {
        const model::MLib& m = models[k];
        double g = m.unit / m.precision;
        double read_tol = read_tol_user > 0 ? read_tol_user * g : 1.0;
        double bound = 2.0 * tol_user * g + 2.5 + read_tol;
        for (auto& mc : m.cells) {
            auto git = got.cells.find(mc.name);
            if (git == got.cells.end()) continue;
            canon::CCell& ec = E.c.cells[mc.name];
            for (auto& p : mc.polys) {
                if (p.pts.size() < 5) continue;  // the detector wants more than four vertices
                std::vector<canon::IPt> pts;
                for (auto& q : p.pts) pts.push_back(canon::rgrid(q));
                bool ok;
                std::string props = canon::props_str(p.props, canon::OAS);
                std::string exact = canon::poly_line(p.layer, p.dtype, pts, canon::rep_grid(p.rep), props, ok);
                if (!ok) continue;
                if (std::find(git->second.polys.begin(), git->second.polys.end(), exact) != git->second.polys.end()) continue;
                for (auto& kv : git->second.poly_pts) {
                    const std::vector<canon::IPt>& f = kv.second;
                    if (f.size() < 3) continue;
                    std::string cand = canon::poly_line(p.layer, p.dtype, f, canon::rep_grid(p.rep), props, ok);
                    if (cand != kv.first) continue;  // tag, repetition or properties differ
                    if (std::find(ec.polys.begin(), ec.polys.end(), cand) != ec.polys.end()) continue;  // already claimed
                    double worst = 0;
                    for (auto& v : f) worst = std::max(worst, boundary_dist(v, pts));
                    for (auto& v : pts) worst = std::max(worst, boundary_dist(v, f));
                    if (worst > bound) continue;
                    auto it = std::find(ec.polys.begin(), ec.polys.end(), exact);
                    if (it != ec.polys.end()) {
                        *it = cand;
                        count(p.hint == 1 ? "circles_accepted" : "circles_accepted_unplanned");
                    }
                    break;
                }
            }
            std::sort(ec.polys.begin(), ec.polys.end());
        }
    }

    void op_load_check_oas(const J& op) {
        std::string file = op.gets("file");
        if (!W->fs.exists(file)) return;
        FileInfo& fi = finfo[file];
        ErrorCode ec = ErrorCode::NoError;
        Library lib = {};
        bool returned = guarded([&]() { lib = read_oas(file.c_str(), op.getd("unit", 0), op.getd("tol", 0), &ec); });
        J ctx = J::obj();
        ctx.set("file_state", "complete");
        ctx.set("flags", (int64_t)fi.max_points);
        count("load_check_oas");
        if (!returned) {
            drain_seam_violations(prop, ctx);
            check_handles(prop, ctx);
            return;
        }
        const J& ex = op.at("expect");
        Expect E;
        bool have = false;
        if (ex.has("model")) {
            int k = (int)ex.geti("model");
            if (k >= 0 && k < (int)models.size()) {
                if (fi.writer == "peer") {
                    canon::Options o;
                    o.mode = canon::OAS;
                    E.c = canon::from_model(models[k], o);
                } else {
                    E = expect_oas(k);
                }
                have = true;
            }
        } else if (ex.has("canon") && canons.count(ex.gets("canon"))) {
            E.c = canons[ex.gets("canon")];
            have = true;
        }
        ctx.set("writer", fi.writer);
        bridge::ExtractOptions xo;
        xo.mode = canon::OAS;
        canon::CLib got;
        // after a hard error read_oas may hand back a half-built library (references that still hold their
        // reference numbers where pointers belong): not something to walk through
        bool hard_error = ec != ErrorCode::NoError && ec != ErrorCode::MissingReference;
        if (!hard_error) guarded([&]() { got = bridge::extract(lib, xo); });
        feature_state("load_check_oas", ex.has("model") ? (int)ex.geti("model") : fi.model, fi.max_points, (ex.has("canon") ? 1 : 0) | ((uint64_t)op.geti("level_class") << 1));
        if (have) {
            bool dangling = false;
            if (ex.has("model")) {
                const model::MLib& m = models[ex.geti("model")];
                for (auto& c : m.cells)
                    for (auto& r : c.refs)
                        if (!m.in_lib(r.target)) dangling = true;
                if (op.getd("circle_tol", 0) > 0 || fi.writer == "peer") accept_circles((int)ex.geti("model"), op.getd("circle_tol", 0), op.getd("tol", 0), E, got);
            }
            ErrorCode want = dangling ? ErrorCode::MissingReference : ErrorCode::NoError;
            if (ec != want && !ex.has("canon")) {
                viol(prop, "error_code", std::string("read_oas reported ") + bridge::error_name(ec) + " for a valid file (expected " + bridge::error_name(want) + ")", ctx);
            } else {
                std::string clause, why;
                if (canon::differ(E.c, got, false, clause, why)) {
                    if (ex.has("canon")) ctx.set("expect", "canon");
                    if (clause == "paths") {
                        size_t q0 = why.find("cell '"), q1 = q0 == std::string::npos ? q0 : why.find("':", q0);
                        if (q1 != std::string::npos) {
                            std::string cname = why.substr(q0 + 6, q1 - q0 - 6);
                            auto it = E.c.cells.find(cname);
                            if (it != E.c.cells.end()) {
                                ctx.set("cell_had_path_vertices_one_grid_step_apart", it->second.close_path_vertices > 0);
                                ctx.set("a_vertex_was_strictly_within_tolerance", noise_cells_of_file[file].count(cname) > 0);
                            }
                        }
                    }
                    ctx.set("flags", J());
                    if (ex.has("model")) {
                        bool most_negative = false;
                        auto scan = [&](const std::vector<model::MProp>& ps) {
                            for (auto& p : ps)
                                for (auto& v : p.vals)
                                    if (v.kind == 1 && v.i == INT64_MIN) most_negative = true;
                        };
                        const model::MLib& m = models[ex.geti("model")];
                        scan(m.props);
                        for (auto& c : m.cells) {
                            scan(c.props);
                            for (auto& q : c.polys) scan(q.props);
                            for (auto& q : c.paths) scan(q.props);
                            for (auto& q : c.labels) scan(q.props);
                            for (auto& q : c.refs) scan(q.props);
                        }
                        if (most_negative) ctx.set("model_has_the_most_negative_integer_as_property_value", true);
                    }
                    viol(prop, clause, why, ctx);
                }
            }
        }
        if (op.has("keep") && lib.name == NULL) {
            guarded([&]() { lib.free_all(); });
        } else if (op.has("keep")) {
            std::string name = op.gets("keep");
            if (have) got.precision = E.c.precision;
            canons[name] = got;
            canon_file[name] = file;
            if (libs.count(name)) guarded([&]() { libs[name].free_all(); });
            libs[name] = lib;
        } else {
            guarded([&]() { lib.free_all(); });
        }
        drain_seam_violations(prop, ctx);
        check_handles(prop, ctx);
    }

    // history between a load and a re-save: the loaded library gains a reference from one of its cells to a
    // later one (which stops being a top cell if it was one); keeps the cell graph acyclic because cells are
    // stored, and loaded, with references pointing to later cells only
    void op_edit_add_ref(const J& op) {
        std::string name = op.gets("lib");
        if (!libs.count(name)) return;
        Library& lib = libs[name];
        uint64_t n = lib.cell_array.count;
        if (lib.name == NULL || n < 2) return;
        uint64_t a = (uint64_t)op.geti("a") % (n - 1);
        uint64_t b = a + 1 + (uint64_t)op.geti("b") % (n - 1 - a);
        // only towards a cell that does not (transitively) place the first one
        Cell* from = lib.cell_array[a];
        Cell* to = lib.cell_array[b];
        bool cyclic = false;
        guarded([&]() {
            Map<Cell*> deps = {};
            to->get_dependencies(true, deps);
            cyclic = deps.has_key(from->name);
            deps.clear();
        });
        if (cyclic || from == to) return;
        guarded([&]() {
            Reference* r = (Reference*)allocate_clear(sizeof(Reference));
            r->type = ReferenceType::Cell;
            r->cell = to;
            r->magnification = 1;
            r->origin = Vec2{(double)op.geti("dx") * lib.precision / lib.unit, (double)op.geti("dy") * lib.precision / lib.unit};
            from->reference_array.append(r);
        });
        count("edit_add_ref");
    }

    void op_resave_oas(const J& op) {
        std::string from = op.gets("from"), file = op.gets("file");
        if (!libs.count(from)) return;
        Library& lib = libs[from];
        if (lib.name == NULL) return;
        ErrorCode ec = ErrorCode::NoError;
        guarded([&]() {
            set_policy(op);
            ec = lib.write_oas(file.c_str(), op.getd("tol"), (uint8_t)op.geti("level"), (uint16_t)op.geti("flags"));
        });
        clear_policy();
        tm none = {};
        note_saved(file, op, "oas", false, none);
        finfo[file].max_points = (uint64_t)op.geti("flags");
        note_noise_chain(from, file);
        count("resave_oas");
        J ctx = J::obj();
        drain_seam_violations(prop, ctx);
        check_handles(prop, ctx);
    }

    // signature clause: stored bytes vs an independent CRC-32 / byte sum, and oas_validate's answer,
    // on the pristine file and after flips
    void op_validate_check(const J& op) {
        std::string file = op.gets("file");
        if (!W->fs.exists(file)) return;
        FileInfo& fi = finfo[file];
        const std::vector<uint8_t>& b = W->fs.bytes(file);
        J ctx = J::obj();
        ctx.set("scheme", fi.oas_sig);
        ctx.set("flipped", fi.damage == "flip");
        count("validate_check");
        if (b.size() < 6) return;
        uint32_t sig = 0xdeadbeef;
        ErrorCode ec = ErrorCode::NoError;
        bool ok = false;
        bool returned = guarded([&]() { ok = oas_validate(file.c_str(), &sig, &ec); });
        if (returned) {
            uint8_t scheme = b[b.size() - 5];
            uint32_t stored = (uint32_t)b[b.size() - 4] | ((uint32_t)b[b.size() - 3] << 8) | ((uint32_t)b[b.size() - 2] << 16) | ((uint32_t)b[b.size() - 1] << 24);
            uint32_t mine = 0;
            if (scheme == 1) mine = crc32_ieee(b.data(), b.size() - 4);
            if (scheme == 2)
                for (size_t i = 0; i + 4 < b.size(); i++) mine += b[i];
            bool magic_ok = b.size() >= 14 && memcmp(b.data(), "%SEMI-OASIS\r\n\x01", 14) == 0;
            if (fi.oas_sig != 0 && fi.damage.empty()) {
                if (scheme != fi.oas_sig)
                    viol(prop, "signature_scheme", "write_oas was asked for validation scheme " + std::to_string(fi.oas_sig) + " but the END record says " + std::to_string(scheme), ctx);
                else if (stored != mine)
                    viol(prop, "signature_bytes", "the stored signature does not match the file bytes (independent computation)", ctx);
                else if (!(ok && ec == ErrorCode::NoError))
                    viol(prop, "signature_rejected", std::string("oas_validate rejects the pristine signed file: ") + (ok ? "true" : "false") + " " + bridge::error_name(ec), ctx);
                else if (sig != mine)
                    viol(prop, "signature_reported", "oas_validate reports a signature that differs from the independent computation", ctx);
            } else if (magic_ok && (scheme == 1 || scheme == 2)) {
                bool expect_ok = stored == mine;
                if (ok != expect_ok)
                    viol(prop, "signature_verdict", std::string("oas_validate answered ") + (ok ? "true" : "false") + " for a file whose stored signature " + (expect_ok ? "matches" : "does not match") + " its bytes", ctx);
            } else if (fi.oas_sig == 0 && fi.damage.empty()) {
                if (!(ok && ec == ErrorCode::ChecksumError))
                    viol(prop, "unsigned_verdict", std::string("oas_validate on an unsigned file: ") + (ok ? "true" : "false") + " " + bridge::error_name(ec), ctx);
            }
        }
        drain_seam_violations(prop, ctx);
        check_handles(prop, ctx);
    }



    void op_peer_oas(const J& op) {
        int k = (int)op.geti("model");
        if (k < 0 || k >= (int)models.size()) return;
        std::string file = op.gets("file");
        oaspeer::Choices ch = oaspeer::choices_from(op.at("choices"));
        oaspeer::EncodeInfo info;
        std::vector<uint8_t> bytes = oaspeer::encode(models[k], ch, &info);
        W->fs.put(file, bytes);
        W->trace.ev("peer_encode_oas", bytes.size());
        W->trace.bytes(bytes.data(), bytes.size());
        FileInfo fi;
        fi.fmt = "oas";
        fi.model = k;
        fi.writer = "peer";
        fi.oas_sig = ch.validation;
        finfo[file] = fi;
        count("peer_oas");
        uint64_t cb = (uint64_t)ch.cell_names | ((uint64_t)ch.text_strings << 2) | ((uint64_t)ch.prop_names << 4) | ((uint64_t)ch.prop_strings << 6) |
                      ((uint64_t)ch.cblock << 8) | ((uint64_t)ch.validation << 10) | (ch.explicit_numbers ? 1 << 12 : 0) | (ch.offsets_in_start ? 1 << 13 : 0) |
                      (ch.strict_tables ? 1 << 14 : 0) | (ch.special_shapes ? 1 << 15 : 0) | (ch.general_reps ? 1 << 16 : 0) |
                      ((uint64_t)(ch.p_modal * 4) << 17) | (ch.p_relative > 0 ? 1 << 20 : 0) | (ch.p_pad > 0 ? 1 << 21 : 0) | ((uint64_t)ch.unit_form << 22);
        feature_state("peer_oas", k, cb, 0);
        // what the stream contains, by the peer's own decoder (census for evidence)
        oaspeer::Decoded d = oaspeer::decode(bytes);
        res.counters["peer_oas_modal_reuses"] += d.census.modal_reuse;
        res.counters["peer_oas_xyrelative"] += d.census.xyrelative;
        res.counters["peer_oas_cblocks"] += d.census.cblock;
        res.counters["peer_oas_special_shapes"] += d.census.rectangle + d.census.trapezoid + d.census.ctrapezoid + d.census.circle;
        for (int i = 0; i < 12; i++) res.counters["peer_oas_rep_type_" + std::to_string(i)] += d.census.repetition[i];
        for (int i = 0; i < 6; i++) res.counters["peer_oas_pointlist_type_" + std::to_string(i)] += d.census.pointlist[i];
        for (int i = 0; i < 26; i++)
            if (d.census.ctrap_type[i]) res.counters["peer_oas_ctrapezoid_type_" + std::to_string(i)] += d.census.ctrap_type[i];
        if (!d.ok || !d.strict_ok) count("peer_oas_selfcheck_failed");
    }

    // ============================================================= C04 direction 2: the peer decodes what write_oas wrote
    struct BBox {
        double x0 = 1e300, y0 = 1e300, x1 = -1e300, y1 = -1e300;
        bool exact = true;   // only integer-preserving transforms were applied
        bool usable = true;  // no path anywhere below (their outline is not recomputed here)
        void add(double x, double y) {
            x0 = std::min(x0, x);
            y0 = std::min(y0, y);
            x1 = std::max(x1, x);
            y1 = std::max(y1, y);
        }
        bool empty() const { return x0 > x1; }
    };

    // Extent of a cell with its hierarchy, in grid units: the bounding box of any transformed copy of a point
    // set depends on its convex hull only, and the hull of a repeated copy is the hull of (hull + hull of the
    // offsets).  One hull per cell, memoised: linear in the size of the library however the cells refer to
    // each other (a flattened enumeration is exponential in the depth of the reference graph).
    typedef std::pair<double, double> P2;
    struct CellGeo {
        std::vector<P2> hull;
        bool exact = true;   // only right-angle rotations and integer magnifications below
        bool usable = true;  // no paths or CIRCLE records below (their outlines are not reconstructed here)
    };
    static std::vector<P2> hull_of(std::vector<P2> v) {
        std::sort(v.begin(), v.end());
        v.erase(std::unique(v.begin(), v.end()), v.end());
        if (v.size() < 3) return v;
        auto cross = [](const P2& o, const P2& a, const P2& b) { return (a.first - o.first) * (b.second - o.second) - (a.second - o.second) * (b.first - o.first); };
        std::vector<P2> h(2 * v.size());
        size_t k = 0;
        for (size_t i = 0; i < v.size(); i++) {
            while (k >= 2 && cross(h[k - 2], h[k - 1], v[i]) <= 0) k--;
            h[k++] = v[i];
        }
        for (size_t i = v.size() - 1, t = k + 1; i > 0; i--) {
            while (k >= t && cross(h[k - 2], h[k - 1], v[i - 1]) <= 0) k--;
            h[k++] = v[i - 1];
        }
        h.resize(k - 1);
        return h;
    }
    static std::vector<P2> offsets_hull(const model::MRep& rep) {
        std::vector<P2> o;
        if (rep.type == model::REP_RECT || rep.type == model::REP_REGULAR) {
            // the corners of a lattice are its hull
            model::Pt v1 = rep.type == model::REP_RECT ? model::Pt{rep.sp.x, 0} : rep.v1;
            model::Pt v2 = rep.type == model::REP_RECT ? model::Pt{0, rep.sp.y} : rep.v2;
            double c = rep.cols ? (double)(rep.cols - 1) : 0.0, r = rep.rows ? (double)(rep.rows - 1) : 0.0;
            for (double a : {0.0, c})
                for (double b : {0.0, r}) o.push_back({(a * v1.x + b * v2.x) / 10.0, (a * v1.y + b * v2.y) / 10.0});
        } else {
            for (auto& q : canon::rep_offsets(rep)) o.push_back({q.x / 10.0, q.y / 10.0});
        }
        return hull_of(o);
    }
    const CellGeo& cell_geo(const model::MLib& lib, const model::MCell& c, std::map<std::string, CellGeo>& memo) {
        auto it = memo.find(c.name);
        if (it != memo.end()) return it->second;
        CellGeo g;
        std::vector<P2> pts;
        if (!c.paths.empty()) g.usable = false;
        for (auto& p : c.polys) {
            if (p.hint == 1) g.usable = false;  // a CIRCLE record approximates the original within the tolerance
            std::vector<P2> oh = offsets_hull(p.rep);
            for (auto& o : oh)
                for (auto& q : p.pts) pts.push_back({q.x / 10.0 + o.first, q.y / 10.0 + o.second});
        }
        for (auto& l : c.labels)
            for (auto& o : offsets_hull(l.rep)) pts.push_back({l.origin.x / 10.0 + o.first, l.origin.y / 10.0 + o.second});
        for (auto& r : c.refs) {
            const model::MCell* t = lib.find(r.target);
            if (!t || t == &c) continue;
            const CellGeo& sub = cell_geo(lib, *t, memo);
            if (!sub.usable) g.usable = false;
            if (!sub.exact) g.exact = false;
            double q = r.rot_deg / 90.0;
            bool right = q == floor(q);
            if (!right || r.mag != floor(r.mag)) g.exact = false;
            double a = r.rot_deg * (M_PI / 180.0), ca = cos(a), sa = sin(a);
            if (right) {
                int k = ((int)llround(q) % 4 + 4) % 4;
                ca = k == 0 ? 1 : (k == 2 ? -1 : 0);
                sa = k == 1 ? 1 : (k == 3 ? -1 : 0);
            }
            std::vector<P2> oh = offsets_hull(r.rep);
            for (auto& o : oh)
                for (auto& pt : sub.hull) {
                    double x = pt.first * r.mag, y = pt.second * r.mag;
                    if (r.xrefl) y = -y;
                    pts.push_back({x * ca - y * sa + r.origin.x / 10.0 + o.first, x * sa + y * ca + r.origin.y / 10.0 + o.second});
                }
        }
        g.hull = hull_of(pts);
        return memo[c.name] = g;
    }

    static bool has_by_name(const model::MLib& m, const std::string& cell, std::map<std::string, bool>& memo) {
        auto it = memo.find(cell);
        if (it != memo.end()) return it->second;
        memo[cell] = false;
        const model::MCell* c = m.find(cell);
        bool r2 = false;
        if (c)
            for (auto& r : c->refs) {
                if (r.how == 1 && m.in_lib(r.target)) r2 = true;
                if (!r2 && has_by_name(m, r.target, memo)) r2 = true;
                if (r2) break;
            }
        return memo[cell] = r2;
    }

    // does the cell hold, somewhere below it, a path that is written as its outline?  (outline vertices are not
    // grid points before the writer rounds them)
    static bool holds_outline(const model::MLib& m, const std::string& cell, std::map<std::string, bool>& memo) {
        auto it = memo.find(cell);
        if (it != memo.end()) return it->second;
        memo[cell] = false;
        const model::MCell* c = m.find(cell);
        bool r2 = false;
        if (c) {
            for (auto& p : c->paths)
                if (!p.simple) r2 = true;
            for (auto& r : c->refs)
                if (!r2 && holds_outline(m, r.target, memo)) r2 = true;
        }
        return memo[cell] = r2;
    }
    // is such an outline seen from this cell through a magnification or a turn that is not a multiple of 90
    // degrees?  Then the box of the unrounded outline (what the writer states) and the box of the rounded
    // vertices (what the file holds), each transformed, can differ by more than the rounding of one coordinate
    static bool outline_under_transform(const model::MLib& m, const std::string& cell, std::map<std::string, bool>& memo, std::map<std::string, bool>& omemo) {
        auto it = memo.find(cell);
        if (it != memo.end()) return it->second;
        memo[cell] = false;
        const model::MCell* c = m.find(cell);
        bool r2 = false;
        if (c)
            for (auto& r : c->refs) {
                bool plain = r.mag == 1 && fmod(r.rot_deg, 90.0) == 0;
                if (!plain && holds_outline(m, r.target, omemo)) r2 = true;
                if (!r2 && outline_under_transform(m, r.target, memo, omemo)) r2 = true;
                if (r2) break;
            }
        return memo[cell] = r2;
    }

    const model::MVal* std_val(const std::vector<model::MProp>& ps, const char* name, size_t idx) {
        for (auto& p : ps)
            if (p.name == name && idx < p.vals.size()) return &p.vals[idx];
        return nullptr;
    }

    void op_peer_check_oas(const J& op) {
        std::string file = op.gets("file");
        if (!W->fs.exists(file)) return;
        FileInfo& fi = finfo[file];
        uint64_t flags = fi.max_points;
        J ctx = J::obj();
        count("peer_check_oas");
        oaspeer::Decoded d = oaspeer::decode(W->fs.bytes(file));
        res.counters["oas_rectangle"] += d.census.rectangle;
        res.counters["oas_square"] += d.census.square;
        res.counters["oas_trapezoid"] += d.census.trapezoid;
        res.counters["oas_ctrapezoid"] += d.census.ctrapezoid;
        res.counters["oas_circle"] += d.census.circle;
        res.counters["oas_polygon"] += d.census.polygon;
        res.counters["oas_path"] += d.census.path;
        res.counters["oas_text"] += d.census.text;
        res.counters["oas_placement"] += d.census.placement + d.census.placement_t;
        res.counters["oas_cblock"] += d.census.cblock;
        for (int i = 0; i < 12; i++) res.counters["oas_rep_type_" + std::to_string(i)] += d.census.repetition[i];
        for (int i = 0; i < 6; i++) res.counters["oas_pointlist_type_" + std::to_string(i)] += d.census.pointlist[i];
        for (int i = 0; i < 26; i++)
            if (d.census.ctrap_type[i]) res.counters["oas_ctrapezoid_type_" + std::to_string(i)] += d.census.ctrap_type[i];
        feature_state("peer_check_oas", fi.model, flags, (uint64_t)op.geti("level_class"));
        if (!d.ok) {
            viol(prop, "peer_rejects_container", "the independent decoder cannot read the file write_oas produced: " + d.error, ctx);
            return;
        }
        if (!d.strict_ok) {
            viol(prop, "peer_strict", "the file write_oas produced breaks a format rule: " + d.error, ctx);
            return;
        }
        const J& ex = op.at("expect");
        int k = (int)ex.geti("model", -1);
        if (k < 0 || k >= (int)models.size()) return;
        const model::MLib& m = models[k];
        // ---- content
        Expect E = expect_oas(k);
        canon::Options o;
        o.mode = canon::OAS;
        // properties of CELLNAME records belong to their cells (gdstk writes them there)
        model::MLib dl = d.lib;
        for (size_t i = 0; i < dl.cells.size() && i < d.cells.size(); i++)
            for (auto& p : d.cells[i].name_props) dl.cells[i].props.push_back(p);
        canon::CLib got = canon::from_model(dl, o);
        got.precision = d.lib.precision;
        if (op.getd("circle_tol", 0) > 0) accept_circles(k, op.getd("circle_tol"), 1e-9, E, got);
        std::string clause, why;
        // (a file written from a library that was itself loaded is compared for content by C02's cycles; here
        // only its statements about itself are of interest)
        if (!op.getb("resaved") && canon::differ(E.c, got, false, clause, why)) {
            viol(prop, "peer_" + clause, "decoded by the independent decoder: " + why, ctx);
            return;
        }
        // ---- the file's statements about itself
        if (d.validation != fi.oas_sig)
            viol(prop, "end_validation_scheme", "END names validation scheme " + std::to_string(d.validation) + ", write_oas was asked for " + std::to_string(fi.oas_sig), ctx);
        std::set<std::string> placed;
        for (auto& c : d.lib.cells)
            for (auto& r : c.refs) placed.insert(r.target);
        bool any_top = false;
        for (auto& p : d.file_props) any_top = any_top || p.name == "S_TOP_CELL";
        // requested, or present although not requested (carried over from the file the library was loaded from):
        // either way it is this file's statement about its top cells
        if ((flags & OASIS_CONFIG_PROPERTY_TOP_LEVEL) || any_top) {
            std::set<std::string> tops, said;
            for (auto& c : d.lib.cells)
                if (!placed.count(c.name)) tops.insert(c.name);
            for (auto& p : d.file_props)
                if (p.name == "S_TOP_CELL")
                    for (auto& v : p.vals) said.insert(v.s);
            if (tops != said) {
                std::string a, b;
                for (auto& t : tops) a += " " + t;
                for (auto& t : said) b += " " + t;
                J c2 = ctx;
                if (!(flags & OASIS_CONFIG_PROPERTY_TOP_LEVEL)) c2.set("requested", false);
                viol(prop, "s_top_cell", "S_TOP_CELL lists {" + b + " } but the cells no placement refers to are {" + a + " }", c2);
            }
        }
        if (flags & OASIS_CONFIG_PROPERTY_CELL_OFFSET) {
            for (auto& cf : d.cells) {
                const model::MVal* v = std_val(cf.name_props, "S_CELL_OFFSET", 0);
                if (!v || v->kind != 0)
                    viol(prop, "s_cell_offset", "cell '" + cf.name + "' has no S_CELL_OFFSET property although it was requested", ctx);
                else if (v->u != cf.offset)
                    viol(prop, "s_cell_offset", "S_CELL_OFFSET of cell '" + cf.name + "' is " + std::to_string(v->u) + ", its CELL record is at " + std::to_string(cf.offset), ctx);
            }
        } else {
            // not requested, but present (the library came from a file that had them): a cell offset is a
            // statement about this file whoever asked for it
            for (auto& cf : d.cells) {
                const model::MVal* v = std_val(cf.name_props, "S_CELL_OFFSET", 0);
                if (v && v->kind == 0 && v->u != cf.offset) {
                    J c2 = ctx;
                    c2.set("requested", false);
                    viol(prop, "s_cell_offset", "S_CELL_OFFSET of cell '" + cf.name + "' is " + std::to_string(v->u) + " (not requested for this file, carried over from the file the library was loaded from), its CELL record is at " + std::to_string(cf.offset), c2);
                    break;
                }
            }
        }
        bool bbox_requested = (flags & OASIS_CONFIG_PROPERTY_BOUNDING_BOX) != 0, any_bbox = false;
        for (auto& cf : d.cells) any_bbox = any_bbox || std_val(cf.name_props, "S_BOUNDING_BOX", 0) != nullptr;
        if (bbox_requested || any_bbox) {
            const model::MVal* av = std_val(d.file_props, "S_BOUNDING_BOXES_AVAILABLE", 0);
            if (bbox_requested && (!av || av->u != 2)) viol(prop, "s_bounding_boxes_available", "S_BOUNDING_BOXES_AVAILABLE is missing or not 2", ctx);
            std::map<std::string, CellGeo> geo_memo;
            std::map<std::string, bool> by_name_memo, out_memo, outt_memo;
            for (size_t i = 0; i < d.cells.size(); i++) {
                const oaspeer::CellFacts& cf = d.cells[i];
                if (outline_under_transform(m, cf.name, outt_memo, out_memo)) {
                    count("bbox_skipped_outline_under_transform");
                    continue;
                }
                const CellGeo& geo = cell_geo(d.lib, d.lib.cells[i], geo_memo);
                const std::vector<P2>& pts = geo.hull;
                bool exact = geo.exact, usable = geo.usable;
                if (!usable) {
                    count("bbox_skipped_paths_or_circles");
                    continue;
                }
                BBox bb;
                for (auto& q : pts) bb.add(q.first, q.second);
                const model::MVal* f = std_val(cf.name_props, "S_BOUNDING_BOX", 0);
                const model::MVal* x = std_val(cf.name_props, "S_BOUNDING_BOX", 1);
                const model::MVal* y = std_val(cf.name_props, "S_BOUNDING_BOX", 2);
                const model::MVal* w = std_val(cf.name_props, "S_BOUNDING_BOX", 3);
                const model::MVal* h = std_val(cf.name_props, "S_BOUNDING_BOX", 4);
                if (!f || !x || !y || !w || !h) {
                    if (bbox_requested) viol(prop, "s_bounding_box", "cell '" + cf.name + "' has no complete S_BOUNDING_BOX property although it was requested", ctx);
                    continue;
                }
                count("bbox_checked");
                if (bb.empty()) continue;  // gdstk writes (0,0,0,0) for empty cells; the format leaves that open
                if (has_by_name(m, cf.name, by_name_memo)) count("bbox_with_by_name_reference");
                auto val = [](const model::MVal* v) { return v->kind == 1 ? (double)v->i : (double)v->u; };
                double tol = exact ? 0.0 : 1.0;
                double ex0 = exact ? bb.x0 : round(bb.x0), ey0 = exact ? bb.y0 : round(bb.y0);
                double ex1 = exact ? bb.x1 : round(bb.x1), ey1 = exact ? bb.y1 : round(bb.y1);
                if (fabs(val(x) - ex0) > tol || fabs(val(y) - ey0) > tol || fabs(val(x) + val(w) - ex1) > tol || fabs(val(y) + val(h) - ey1) > tol) {
                    char buf[256];
                    snprintf(buf, sizeof buf, "S_BOUNDING_BOX of cell '%s' says (%g,%g)+(%g,%g), the decoded content spans (%g,%g)-(%g,%g)", cf.name.c_str(),
                             val(x), val(y), val(w), val(h), bb.x0, bb.y0, bb.x1, bb.y1);
                    ctx.set("exact_transforms", exact);
                    if (!bbox_requested) ctx.set("requested", false);
                    ctx.set("by_name_reference_below", has_by_name(m, cf.name, by_name_memo));
                    viol(prop, "s_bounding_box", buf, ctx);
                }
            }
        }
        if (flags & OASIS_CONFIG_PROPERTY_MAX_COUNTS) {
            const model::MVal* ms = std_val(d.file_props, "S_MAX_STRING_LENGTH", 0);
            const model::MVal* mp = std_val(d.file_props, "S_POLYGON_MAX_VERTICES", 0);
            const model::MVal* mw = std_val(d.file_props, "S_PATH_MAX_VERTICES", 0);
            const model::MVal* mi = std_val(d.file_props, "S_MAX_SIGNED_INTEGER_WIDTH", 0);
            const model::MVal* mu = std_val(d.file_props, "S_MAX_UNSIGNED_INTEGER_WIDTH", 0);
            if (!ms || !mp || !mw || !mi || !mu)
                viol(prop, "s_max_missing", "a requested S_MAX_* property is missing", ctx);
            else if (ms->u < d.max_string)
                viol(prop, "s_max_string_length", "S_MAX_STRING_LENGTH is " + std::to_string(ms->u) + " but the file holds a string of " + std::to_string(d.max_string) + " bytes", ctx);
            else if (mp->u < d.max_polygon_vertices)
                viol(prop, "s_polygon_max_vertices", "S_POLYGON_MAX_VERTICES is " + std::to_string(mp->u) + " but a POLYGON record has " + std::to_string(d.max_polygon_vertices) + " vertices", ctx);
            else if (mw->u < d.max_path_vertices)
                viol(prop, "s_path_max_vertices", "S_PATH_MAX_VERTICES is " + std::to_string(mw->u) + " but a PATH record has " + std::to_string(d.max_path_vertices) + " vertices", ctx);
        }
        (void)m;
    }

    // bounded liveness after the faults: a small library must still save and load
    void op_canary(const J& op) {
        (void)op;
        model::MLib m;
        m.name = "CANARY";
        model::MCell c;
        c.name = "C";
        model::MPoly p;
        p.layer = 1;
        p.pts = {model::Pt{0, 0}, model::Pt{100, 0}, model::Pt{100, 100}, model::Pt{0, 100}};
        c.polys.push_back(p);
        m.cells.push_back(c);
        ErrorCode ec = ErrorCode::NoError, ec2 = ErrorCode::NoError;
        uint64_t ncell = 0;
        bool ok = guarded([&]() {
            bridge::Built b = bridge::build(m);
            tm t = {};
            t.tm_year = 100;
            t.tm_mday = 1;
            ec = b.lib.write_gds("/sim/canary.gds", 0, &t);
            b.destroy();
            Library lib = read_gds("/sim/canary.gds", 0, 0, NULL, &ec2);
            ncell = lib.cell_array.count;
            lib.free_all();
        });
        J ctx = J::obj();
        if (!ok || ec != ErrorCode::NoError || ec2 != ErrorCode::NoError || ncell != 1)
            viol(prop, "no_recovery",
                 std::string("after the faults a fresh save/load did not work: write=") + bridge::error_name(ec) +
                     " read=" + bridge::error_name(ec2) + " cells=" + std::to_string(ncell) +
                     " open_handles=" + std::to_string(W->fs.open_count()) + " fdlimit=" + std::to_string(W->fs.fdlimit), ctx);
        count("canary");
        drain_seam_violations(prop, ctx);
        check_handles(prop, ctx);
    }

    void run() {
        prop = plan.gets("prop", "C18");
        seed = plan.at("seed").as_hex();
        for (auto& m : plan.at("models").a) models.push_back(model::lib_from(m));
        // reach probes: rare model features the generators aim for
        for (auto& m : models) {
            if (m.cells.size() >= 130) count("model_libraries_with_130_cells_or_more");
            for (auto& c : m.cells)
                if (c.name.size() >= 126) count("model_cell_names_126_bytes_or_more");
        }
        for (auto& m : models)
            for (auto& c : m.cells) {
                for (auto& q : c.paths) {
                    if (q.spine.size() > 8190) count("model_paths_above_8190_points");
                    if (q.impl == 1) count(q.simple ? "model_simple_robustpaths" : "model_nonsimple_robustpaths");
                    if (!q.simple && q.impl == 0) count("model_nonsimple_flexpaths");
                    if (!q.voffs.empty()) count("model_paths_with_offsets_changing_along_the_way");
                    if (q.tol_steps > 0) count("model_paths_with_a_tolerance_of_their_own");
                    if (q.tol_steps > 0 && model::centre_line(q).size() + 2 <= q.spine.size()) count("model_paths_losing_two_or_more_vertices_to_their_tolerance");
                    if (q.prescale != 1) count("model_paths_brought_to_size_by_scale");
                }
                for (auto& q : c.polys) {
                    {
                        // four vertices that occur twice: the ends of the seam to a hole and of the seam from the hole to an island
                        std::map<std::pair<model::dg_t, model::dg_t>, int> seen;
                        int twice = 0;
                        if (q.pts.size() <= 2000)
                            for (auto& v : q.pts)
                                if (++seen[{v.x, v.y}] == 2) twice++;
                        if (twice >= 4) count(q.pts.size() > 199 ? "model_rings_with_an_island_above_199_vertices" : "model_rings_with_an_island");
                    }
                    if (q.pts.size() >= 8189) count("model_polygons_of_8189_points_or_more");
                    if (q.hint == 1) count("model_circle_candidates");
                    if (q.pts.size() == 3) count("model_triangles");
                }
                for (auto& q : c.refs) {
                    model::dg_t w = 0;
                    if (q.rep.type == model::REP_RECT) w = (model::dg_t)q.rep.cols * llabs(q.rep.sp.x);
                    if (q.rep.type == model::REP_REGULAR)
                        w = (model::dg_t)q.rep.cols * std::max(llabs(q.rep.v1.x), llabs(q.rep.v1.y));
                    if (w > 21474836470LL) count("model_arrays_wider_than_2^31_grid_steps");
                    if (llabs(q.origin.x) > 5000000000LL || llabs(q.origin.y) > 5000000000LL) count("model_references_beyond_5e8_grid_steps");
                }
                for (auto& q : c.labels)
                    if (q.text.size() >= 126) count(q.text.size() > 60000 ? "model_labels_near_record_limit" : "model_labels_126_bytes_or_more");
            }
        W->begin_run(plan.at("heap_seed").as_hex());
        gdstk_verif_oas_buffer_size = 0;
        if (plan.has("clock")) W->clock.now = W->clock.start = plan.geti("clock");
        W->trace.verbose = opt.verbose;
        W->trace.out = opt.trace_out;
        set_error_logger(W->log_sink);
        const J& ops = plan.at("ops");
        for (size_t i = 0; i < ops.a.size() && !abandoned; i++) {
            const J& op = ops.a[i];
            step = (int)i;
            opname = op.gets("op");
            begin_step(opname + (op.has("file") ? " " + op.gets("file") : ""));
            if (opname == "knobs") op_knobs(op);
            else if (opname == "clock") op_clock(op);
            else if (opname == "save_gds") op_save_gds(op);
            else if (opname == "save_oas") op_save_oas(op);
            else if (opname == "peer_gds") op_peer_gds(op);
            else if (opname == "cut") op_cut(op);
            else if (opname == "sweep") op_sweep(op);
            else if (opname == "flip") op_flip(op);
            else if (opname == "canary") op_canary(op);
            else if (opname == "load_check") op_load_check(op);
            else if (opname == "resave_gds") op_resave_gds(op);
            else if (opname == "peer_check") op_peer_check(op);
            else if (opname == "info_check") op_info_check(op);
            else if (opname == "raw_open") op_raw_open(op);
            else if (opname == "raw_drain") op_raw_drain(op);
            else if (opname == "raw_clear") op_raw_clear(op);
            else if (opname == "writer_open") op_writer_open(op);
            else if (opname == "writer_cell") op_writer_cell(op);
            else if (opname == "writer_raw") op_writer_raw(op);
            else if (opname == "writer_close") op_writer_close(op);
            else if (opname == "stamp") op_stamp(op);
            else if (opname == "load_check_oas") op_load_check_oas(op);
            else if (opname == "resave_oas") op_resave_oas(op);
            else if (opname == "edit_add_ref") op_edit_add_ref(op);
            else if (opname == "validate_check") op_validate_check(op);
            else if (opname == "peer_check_oas") op_peer_check_oas(op);
            else if (opname == "peer_oas") op_peer_oas(op);
            else op_reader(op);
            res.steps++;
            sched_hash = sim::Trace::mix(sched_hash, fnv(opname) ^ (uint64_t)expected_open());
        }
        if (prop == "C17") res.states.insert(sched_hash);
        for (uint64_t o : option_sets) res.states.insert(sim::Trace::mix(0x0A5, o));
        // end of run: release whatever sessions still hold
        step = (int)ops.a.size();
        opname = "end";
        begin_step("end");
        for (auto& kv : writers)
            if (kv.second.open) {
                guarded([&]() { kv.second.w.close(); });
                kv.second.open = false;
                if (kv.second.built.alive) guarded([&]() { kv.second.built.destroy(); });
            }
        for (auto& kv : raws)
            if (kv.second.alive) release_raw(kv.second);
        {
            J ctx = J::obj();
            drain_seam_violations(prop, ctx);
            check_handles(prop, ctx);
        }
        for (auto& kv : libs) guarded([&]() { kv.second.free_all(); });
        W->fs.force_close_all();
        res.hash_struct = W->trace.structural;
        res.hash_content = W->trace.content;
        res.addresses_controlled = W->heap.addresses_controlled();
        res.events = W->events;
        res.sim_seconds = W->clock.covered + (int64_t)W->clock.reads;
        const sim::FaultCounters& f = W->faults;
        res.counters["fault_crash"] += f.crash;
        res.counters["fault_torn"] += f.torn;
        res.counters["fault_enospc"] += f.enospc;
        res.counters["fault_cut"] += f.cut;
        res.counters["fault_flip"] += f.flip;
        res.counters["fault_chunked_reads"] += f.chunked_reads;
        res.counters["fault_small_buf_handles"] += f.small_buf;
        res.counters["fault_fdlimit_hits"] += f.fdlimit_hits;
        res.counters["fault_clock_moves"] += f.clock_jumps;
        res.counters["fault_heap_moves"] += f.heap_moves;
        res.counters["fault_heap_zero_size_null"] += W->heap.zero_nulls;
        res.counters["dev_reads"] += W->fs.n_dev_read;
        res.counters["dev_writes"] += W->fs.n_dev_write;
        res.counters["opens"] += W->fs.n_open;
        res.counters["preads"] += W->fs.n_pread;
        res.counters["heap_allocs"] += W->heap.st.allocs;
        res.counters["heap_live_blocks_at_end"] += W->heap.st.live_blocks;
        res.counters["log_messages"] += W->log_messages;
    if (const char* dir = getenv("GDSIM_DUMP_DIR")) {
            // debugging aid for a replayed plan: the simulated files as they are at the end (never set by a check)
            for (auto& kv : W->fs.files) {
                std::string name = kv.first;
                for (auto& ch : name)
                    if (ch == '/') ch = '_';
                if (FILE* f = __real_fopen((std::string(dir) + "/" + name).c_str(), "wb")) {
                    if (!kv.second.data.empty()) __real_fwrite(kv.second.data.data(), 1, kv.second.data.size(), f);
                    __real_fclose(f);
                }
            }
        }
        W->end_run();
    }
};

RunResult execute(const J& plan, const ExecOptions& opt) {
    sim::init_world();
    Exec e(plan, opt);
    e.run();
    return e.res;
}

}  // namespace ex
