// Plan executor: a plan (JSON) is a list of explicit operations on the simulated world; executing it is a
// pure function of the plan and of the gdstk code under test.
#ifndef GDSIM_EXEC_HPP
#define GDSIM_EXEC_HPP

#include <map>
#include <set>
#include <string>
#include <vector>

#include "bridge.hpp"
#include "canon.hpp"
#include "gds_peer.hpp"
#include "json.hpp"
#include "model.hpp"
#include "sim.hpp"

namespace ex {

struct Viol {
    std::string prop;    // property id the clause belongs to
    std::string op;      // operation kind (reader/writer name)
    std::string clause;  // short machine id of the violated clause
    std::string detail;  // human readable
    int step = -1;
    J context = J::obj();   // narrow description of the situation (used by known-findings matching)
    std::string signature() const { return prop + "|" + op + "|" + clause; }
};

struct RunResult {
    std::vector<Viol> viols;
    uint64_t hash_struct = 0, hash_content = 0;
    bool addresses_controlled = true;
    uint64_t steps = 0, events = 0;
    std::set<uint64_t> states;                   // distinct-state measure (hashes)
    std::map<std::string, uint64_t> counters;    // coverage / fault counters
    int64_t sim_seconds = 0;
    std::vector<std::string> log;                // verbose trace lines (replay)
};

struct ExecOptions {
    bool verbose = false;
    FILE* trace_out = nullptr;
    const char* status_path = nullptr;   // where "current step" is published (crash attribution)
};

RunResult execute(const J& plan, const ExecOptions& opt);

// publish the current step for the parent process (survives a sanitizer abort)
void status_init(const char* path);
void status_set(uint64_t seed, int step, const char* label);
std::string status_op();   // operation name of the last published step

}  // namespace ex

#endif
