#include "gds_peer.hpp"

#include <string.h>

namespace gdspeer {

using model::dg_t;
using model::Pt;

static const char* rec_name(uint8_t t) {
    static const char* names[] = {
        "HEADER",   "BGNLIB",    "LIBNAME",  "UNITS",       "ENDLIB",       "BGNSTR",   "STRNAME",
        "ENDSTR",   "BOUNDARY",  "PATH",     "SREF",        "AREF",         "TEXT",     "LAYER",
        "DATATYPE", "WIDTH",     "XY",       "ENDEL",       "SNAME",        "COLROW",   "TEXTNODE",
        "NODE",     "TEXTTYPE",  "PRESENTATION", "SPACING", "STRING",       "STRANS",   "MAG",
        "ANGLE",    "UINTEGER",  "USTRING",  "REFLIBS",     "FONTS",        "PATHTYPE", "GENERATIONS",
        "ATTRTABLE", "STYPTABLE", "STRTYPE", "ELFLAGS",     "ELKEY",        "LINKTYPE", "LINKKEYS",
        "NODETYPE", "PROPATTR",  "PROPVALUE", "BOX",        "BOXTYPE",      "PLEX",     "BGNEXTN",
        "ENDEXTN"};
    if (t < sizeof(names) / sizeof(names[0])) return names[t];
    return "?";
}

namespace {
struct Dec {
    const std::vector<uint8_t>& b;
    Decoded d;
    bool strict_failed = false;
    explicit Dec(const std::vector<uint8_t>& bytes) : b(bytes) {}
    void strict(const std::string& msg, uint32_t off) {
        if (!strict_failed) {
            strict_failed = true;
            d.error = msg + " at offset " + std::to_string(off);
        }
    }
    bool fail(const std::string& msg, uint32_t off) {
        d.ok = false;
        d.error = msg + " at offset " + std::to_string(off);
        return false;
    }
};
}  // namespace

Decoded decode(const std::vector<uint8_t>& bytes) {
    Dec D(bytes);
    Decoded& d = D.d;
    const uint8_t* p = bytes.data();
    size_t n = bytes.size();
    size_t off = 0;
    enum { S_START, S_HEADER, S_BGNLIB, S_LIBNAME, S_UNITS, S_STRUCT_NAME, S_STRUCT, S_ELEM, S_DONE } st = S_START;
    model::MCell* cell = nullptr;
    // element under construction
    uint8_t el = 0;  // record type of the open element
    bool have_layer = false, have_type = false, have_xy = false, have_sname = false,
         have_colrow = false, have_string = false, have_strans = false;
    int32_t layer = 0, dtype = 0, width = 0, pathtype = 0, bgnextn = 0, endextn = 0;
    uint16_t pres = 0, strans = 0, cols = 0, rows = 0;
    double mag = 1, angle = 0;
    std::vector<std::pair<int32_t, int32_t>> xy;
    int xy_records = 0;
    std::string sname, str;
    std::vector<model::MProp> props;
    int32_t propattr = -1;
    bool have_propattr = false;
    StructRange cur_struct;

    auto reset_el = [&]() {
        el = 0;
        have_layer = have_type = have_xy = have_sname = have_colrow = have_string = have_strans = false;
        layer = dtype = width = pathtype = bgnextn = endextn = 0;
        pres = strans = cols = rows = 0;
        mag = 1;
        angle = 0;
        xy.clear();
        xy_records = 0;
        sname.clear();
        str.clear();
        props.clear();
        have_propattr = false;
    };

    while (true) {
        if (off == n) {
            D.fail("end of file before ENDLIB", (uint32_t)off);
            return d;
        }
        if (n - off < 4) {
            D.fail("truncated record header", (uint32_t)off);
            return d;
        }
        uint32_t len = be16(p + off);
        uint8_t type = p[off + 2], dt = p[off + 3];
        if (len < 4) {
            D.fail("record length below 4", (uint32_t)off);
            return d;
        }
        if (off + len > n) {
            D.fail("record extends past end of file", (uint32_t)off);
            return d;
        }
        if (len % 2) D.strict("odd record length", (uint32_t)off);
        int edt = expected_dt(type);
        if (edt >= 0 && edt != dt)
            D.strict(std::string("wrong data type for ") + rec_name(type), (uint32_t)off);
        d.recs.push_back(Rec{(uint32_t)off, len, type, dt});
        const uint8_t* pl = p + off + 4;
        uint32_t pn = len - 4;
        uint32_t roff = (uint32_t)off;
        off += len;

        auto need = [&](uint32_t k) {
            if (pn != k) D.strict(std::string(rec_name(type)) + " payload size", roff);
            return pn >= k;
        };
        auto bad_state = [&]() { D.strict(std::string("grammar: unexpected ") + rec_name(type), roff); };

        switch (type) {
            case HEADER:
                if (st != S_START) bad_state();
                need(2);
                st = S_HEADER;
                break;
            case BGNLIB:
                if (st != S_HEADER) bad_state();
                if (need(24))
                    for (int i = 0; i < 12; i++) d.lib_ts[i] = be16(pl + 2 * i);
                d.lib_ts_payload = roff + 4;
                st = S_BGNLIB;
                break;
            case LIBNAME:
                if (st != S_BGNLIB) bad_state();
                d.lib.name = rec_string(pl, pn);
                st = S_LIBNAME;
                break;
            case REFLIBS: case FONTS: case ATTRTABLE: case GENERATIONS: case FORMAT:
                if (st != S_LIBNAME) bad_state();
                d.has_unsupported = true;
                break;
            case UNITS:
                if (st != S_LIBNAME) bad_state();
                if (need(16)) {
                    d.db_in_user = real8_decode(be64(pl));
                    d.db_in_meters = real8_decode(be64(pl + 8));
                    d.lib.precision = d.db_in_meters;
                    d.lib.unit = d.db_in_user != 0 ? d.db_in_meters / d.db_in_user : 0;
                    if (!(d.db_in_user > 0) || !(d.db_in_meters > 0)) D.strict("UNITS not positive", roff);
                }
                st = S_UNITS;
                break;
            case BGNSTR:
                if (st != S_UNITS) bad_state();
                cur_struct = StructRange();
                cur_struct.begin = roff;
                cur_struct.ts_payload = roff + 4;
                if (need(24)) {
                    std::array<uint16_t, 12> ts;
                    for (int i = 0; i < 12; i++) ts[i] = be16(pl + 2 * i);
                    d.str_ts.push_back(ts);
                }
                st = S_STRUCT_NAME;
                break;
            case STRNAME:
                if (st != S_STRUCT_NAME) bad_state();
                d.lib.cells.emplace_back();
                cell = &d.lib.cells.back();
                cell->name = rec_string(pl, pn);
                if (cell->name.empty()) D.strict("empty structure name", roff);
                cur_struct.name = cell->name;
                d.cell_names.push_back(cell->name);
                st = S_STRUCT;
                break;
            case ENDSTR:
                if (st != S_STRUCT) bad_state();
                cur_struct.end = (uint32_t)off;
                d.structs.push_back(cur_struct);
                cell = nullptr;
                st = S_UNITS;
                break;
            case BOUNDARY: case PATH: case SREF: case AREF: case TEXT: case BOX: case NODE: case TEXTNODE:
                if (st != S_STRUCT) bad_state();
                reset_el();
                el = type;
                st = S_ELEM;
                if (type == NODE || type == TEXTNODE) d.has_unsupported = true;
                break;
            case ELFLAGS: case PLEX:
                if (st != S_ELEM || have_layer || have_sname || have_xy) bad_state();
                d.has_unsupported = true;
                break;
            case LAYER:
                if (st != S_ELEM || have_layer) bad_state();
                if (need(2)) layer = (int16_t)be16(pl);
                if (layer < 0) D.strict("negative LAYER", roff);
                have_layer = true;
                break;
            case DATATYPE: case BOXTYPE: case TEXTTYPE: case NODETYPE:
                if (st != S_ELEM || !have_layer || have_type) bad_state();
                if ((type == DATATYPE && !(el == BOUNDARY || el == PATH)) || (type == BOXTYPE && el != BOX) ||
                    (type == TEXTTYPE && el != TEXT))
                    bad_state();
                if (need(2)) dtype = (int16_t)be16(pl);
                if (dtype < 0) D.strict("negative type", roff);
                have_type = true;
                break;
            case PATHTYPE:
                if (st != S_ELEM || !(el == PATH || el == TEXT) || have_xy) bad_state();
                if (need(2)) pathtype = (int16_t)be16(pl);
                if (!(pathtype == 0 || pathtype == 1 || pathtype == 2 || pathtype == 4))
                    D.strict("illegal PATHTYPE", roff);
                break;
            case WIDTH:
                if (st != S_ELEM || !(el == PATH || el == TEXT) || have_xy) bad_state();
                if (need(4)) width = be32(pl);
                break;
            case BGNEXTN:
                if (st != S_ELEM || el != PATH || have_xy) bad_state();
                if (need(4)) bgnextn = be32(pl);
                break;
            case ENDEXTN:
                if (st != S_ELEM || el != PATH || have_xy) bad_state();
                if (need(4)) endextn = be32(pl);
                break;
            case SNAME:
                if (st != S_ELEM || !(el == SREF || el == AREF) || have_sname) bad_state();
                sname = rec_string(pl, pn);
                have_sname = true;
                cur_struct.snames.push_back(sname);
                break;
            case STRANS:
                if (st != S_ELEM || !(el == SREF || el == AREF || el == TEXT) || have_xy) bad_state();
                if (need(2)) strans = be16(pl);
                if (strans & 0x0006) d.has_unsupported = true;
                have_strans = true;
                break;
            case MAG:
                if (st != S_ELEM || !have_strans || have_xy) bad_state();
                if (need(8)) mag = real8_decode(be64(pl));
                break;
            case ANGLE:
                if (st != S_ELEM || !have_strans || have_xy) bad_state();
                if (need(8)) angle = real8_decode(be64(pl));
                break;
            case COLROW:
                if (st != S_ELEM || el != AREF || have_xy) bad_state();
                if (need(4)) {
                    cols = be16(pl);
                    rows = be16(pl + 2);
                }
                if (cols == 0 || rows == 0 || cols > 32767 || rows > 32767) D.strict("COLROW out of range", roff);
                have_colrow = true;
                break;
            case PRESENTATION:
                if (st != S_ELEM || el != TEXT || have_xy) bad_state();
                if (need(2)) pres = be16(pl);
                break;
            case XY:
                if (st != S_ELEM) bad_state();
                if (el != BOUNDARY && el != PATH && have_xy) D.strict("more than one XY record", roff);
                if (pn % 8) D.strict("XY payload not a multiple of 8", roff);
                for (uint32_t i = 0; i + 8 <= pn; i += 8) xy.push_back({be32(pl + i), be32(pl + i + 4)});
                have_xy = true;
                xy_records++;
                break;
            case STRING:
                if (st != S_ELEM || el != TEXT || !have_xy) bad_state();
                str = rec_string(pl, pn);
                have_string = true;
                break;
            case PROPATTR:
                if (st != S_ELEM || !have_xy || have_propattr) bad_state();
                if (need(2)) propattr = be16(pl);
                have_propattr = true;
                break;
            case PROPVALUE: {
                if (st != S_ELEM || !have_propattr) bad_state();
                model::MProp mp;
                mp.name = "S_GDS_PROPERTY";
                model::MVal a;
                a.kind = 0;
                a.u = (uint64_t)(uint16_t)propattr;
                model::MVal v;
                v.kind = 3;
                v.s = rec_string(pl, pn) + std::string(1, '\0');
                mp.vals = {a, v};
                props.push_back(mp);
                have_propattr = false;
                d.census.props++;
            } break;
            case ENDEL: {
                if (st != S_ELEM) {
                    bad_state();
                    break;
                }
                if (have_propattr) D.strict("PROPATTR without PROPVALUE", roff);
                if (!cell) break;
                if (xy_records > 1) d.census.multi_xy++;
                switch (el) {
                    case BOUNDARY: case BOX: {
                        if (!have_layer || !have_type || !have_xy) D.strict("incomplete BOUNDARY/BOX", roff);
                        if (el == BOX && xy.size() != 5) D.strict("BOX must have 5 points", roff);
                        if (xy.size() < 4) D.strict("BOUNDARY with fewer than 4 points", roff);
                        if (xy.empty() || xy.front() != xy.back()) D.strict("BOUNDARY/BOX not closed", roff);
                        model::MPoly mp;
                        mp.layer = (uint32_t)layer;
                        mp.dtype = (uint32_t)dtype;
                        size_t k = xy.size();
                        if (k > 1 && xy.front() == xy.back()) k--;
                        for (size_t i = 0; i < k; i++)
                            mp.pts.push_back(Pt{(dg_t)xy[i].first * 10, (dg_t)xy[i].second * 10});
                        mp.props = props;
                        cell->polys.push_back(mp);
                        if (el == BOX)
                            d.census.box++;
                        else
                            d.census.boundary++;
                        d.num_polygons++;
                        d.shape_tags[((uint64_t)(uint32_t)dtype << 32) | (uint32_t)layer]++;
                    } break;
                    case PATH: {
                        if (!have_layer || !have_type || !have_xy) D.strict("incomplete PATH", roff);
                        if (xy.size() < 2) D.strict("PATH with fewer than 2 points", roff);
                        model::MPath mp;
                        mp.layer = (uint32_t)layer;
                        mp.dtype = (uint32_t)dtype;
                        for (auto& q : xy) mp.spine.push_back(Pt{(dg_t)q.first * 10, (dg_t)q.second * 10});
                        int64_t w = width;
                        mp.scale_width = w >= 0;
                        if (w < 0) w = -w;
                        mp.hw = w * 5;
                        switch (pathtype) {
                            case 1: mp.end = model::END_ROUND; break;
                            case 2: mp.end = model::END_HALF; break;
                            case 4:
                                mp.end = model::END_EXT;
                                mp.eu = (dg_t)bgnextn * 10;
                                mp.ev = (dg_t)endextn * 10;
                                break;
                            default: mp.end = model::END_FLUSH;
                        }
                        mp.props = props;
                        cell->paths.push_back(mp);
                        d.census.path++;
                        d.num_paths++;
                        d.shape_tags[((uint64_t)(uint32_t)dtype << 32) | (uint32_t)layer]++;
                    } break;
                    case TEXT: {
                        if (!have_layer || !have_type || !have_xy || !have_string) D.strict("incomplete TEXT", roff);
                        if (xy.size() != 1) D.strict("TEXT XY must have 1 point", roff);
                        model::MLabel ml;
                        ml.text = str;
                        ml.layer = (uint32_t)layer;
                        ml.ttype = (uint32_t)dtype;
                        if (!xy.empty()) ml.origin = Pt{(dg_t)xy[0].first * 10, (dg_t)xy[0].second * 10};
                        int vert = (pres >> 2) & 3, horiz = pres & 3;
                        if (vert == 3 || horiz == 3) D.strict("illegal PRESENTATION justification", roff);
                        ml.anchor = (vert << 2) | horiz;
                        ml.rot_deg = angle;
                        ml.mag = mag;
                        ml.xrefl = (strans & 0x8000) != 0;
                        ml.props = props;
                        cell->labels.push_back(ml);
                        d.census.text++;
                        d.num_labels++;
                        d.label_tags[((uint64_t)(uint32_t)dtype << 32) | (uint32_t)layer]++;
                    } break;
                    case SREF: case AREF: {
                        if (!have_sname || !have_xy) D.strict("incomplete SREF/AREF", roff);
                        model::MRef mr;
                        mr.target = sname;
                        mr.how = 1;
                        if (!xy.empty()) mr.origin = Pt{(dg_t)xy[0].first * 10, (dg_t)xy[0].second * 10};
                        mr.rot_deg = angle;
                        mr.mag = mag;
                        mr.xrefl = (strans & 0x8000) != 0;
                        if (el == SREF) {
                            if (xy.size() != 1) D.strict("SREF XY must have 1 point", roff);
                            d.census.sref++;
                        } else {
                            if (!have_colrow) D.strict("AREF without COLROW", roff);
                            if (xy.size() != 3) D.strict("AREF XY must have 3 points", roff);
                            if (xy.size() == 3 && cols > 0 && rows > 0) {
                                int64_t dx1 = ((int64_t)xy[1].first - xy[0].first) * 10;
                                int64_t dy1 = ((int64_t)xy[1].second - xy[0].second) * 10;
                                int64_t dx2 = ((int64_t)xy[2].first - xy[0].first) * 10;
                                int64_t dy2 = ((int64_t)xy[2].second - xy[0].second) * 10;
                                if (dx1 % (10 * (int64_t)cols) || dy1 % (10 * (int64_t)cols) ||
                                    dx2 % (10 * (int64_t)rows) || dy2 % (10 * (int64_t)rows))
                                    D.strict("AREF pitch is not an integral number of database units", roff);
                                mr.rep.type = model::REP_REGULAR;
                                mr.rep.cols = cols;
                                mr.rep.rows = rows;
                                mr.rep.v1 = Pt{dx1 / cols, dy1 / cols};
                                mr.rep.v2 = Pt{dx2 / rows, dy2 / rows};
                            }
                            d.census.aref++;
                        }
                        mr.props = props;
                        cell->refs.push_back(mr);
                        d.num_references++;
                    } break;
                    default: break;
                }
                reset_el();
                st = S_STRUCT;
            } break;
            case ENDLIB:
                if (st != S_UNITS) bad_state();
                need(0);
                d.endlib_end = (uint32_t)off;
                for (size_t i = off; i < n; i++)
                    if (p[i] != 0) {
                        D.strict("non-NUL bytes after ENDLIB", (uint32_t)i);
                        break;
                    }
                d.ok = true;
                d.strict_ok = !D.strict_failed;
                return d;
            default:
                D.strict(std::string("record type not allowed by this decoder: ") + rec_name(type), roff);
        }
    }
}

// ================================================================= encoder
namespace {
struct Enc {
    std::vector<uint8_t> out;
    void u16(uint16_t v) {
        out.push_back((uint8_t)(v >> 8));
        out.push_back((uint8_t)v);
    }
    void i32(int32_t v) {
        uint32_t u = (uint32_t)v;
        out.push_back((uint8_t)(u >> 24));
        out.push_back((uint8_t)(u >> 16));
        out.push_back((uint8_t)(u >> 8));
        out.push_back((uint8_t)u);
    }
    void u64(uint64_t v) {
        for (int i = 7; i >= 0; i--) out.push_back((uint8_t)(v >> (8 * i)));
    }
    void head(uint32_t payload, uint8_t type, uint8_t dt) {
        u16((uint16_t)(payload + 4));
        out.push_back(type);
        out.push_back(dt);
    }
    void rec0(uint8_t type) { head(0, type, DT_NONE); }
    void rec_i16(uint8_t type, std::initializer_list<uint16_t> vs, uint8_t dt = DT_I16) {
        head((uint32_t)(2 * vs.size()), type, dt);
        for (uint16_t v : vs) u16(v);
    }
    void rec_i32(uint8_t type, const std::vector<int32_t>& vs) {
        head((uint32_t)(4 * vs.size()), type, DT_I32);
        for (int32_t v : vs) i32(v);
    }
    void rec_r64(uint8_t type, std::initializer_list<double> vs, int denorm, int zero_style = 0) {
        head((uint32_t)(8 * vs.size()), type, DT_R64);
        for (double v : vs) u64(real8_encode(v, denorm, zero_style));
    }
    void rec_str(uint8_t type, const std::string& s) {
        std::string t = s;
        if (t.size() % 2) t += '\0';
        head((uint32_t)t.size(), type, DT_STR);
        out.insert(out.end(), t.begin(), t.end());
    }
};

inline int32_t grid(dg_t v) { return (int32_t)(v / 10); }
}  // namespace

Choices random_choices(sim::Rng& r) {
    Choices c;
    c.elflags = r.chance(0.15);
    c.header_extras = r.chance(0.1);
    c.box_for_rect = r.chance(0.5);
    c.explicit_defaults = r.chance(0.4);
    c.omit_zero_width = r.chance(0.5);
    c.denorm_reals = r.chance(0.3);
    c.pad_after_endlib = r.chance(0.3);
    c.xy_split = r.chance(0.3) ? (int)r.range(1, 7) : 0;
    c.text_path_records = r.chance(0.2);
    c.font_bits = r.chance(0.3);
    c.aref = r.chance(0.8);
    static const uint16_t versions[] = {600, 5, 3, 7, 600};
    c.version = versions[r.below(5)];
    for (int i = 0; i < 2; i++) {
        c.lib_ts[6 * i + 0] = (uint16_t)r.range(1970, 2100);
        c.lib_ts[6 * i + 1] = (uint16_t)r.range(1, 12);
        c.lib_ts[6 * i + 2] = (uint16_t)r.range(1, 28);
        c.lib_ts[6 * i + 3] = (uint16_t)r.range(0, 23);
        c.lib_ts[6 * i + 4] = (uint16_t)r.range(0, 59);
        c.lib_ts[6 * i + 5] = (uint16_t)r.range(0, 59);
    }
    c.str_ts_differs = r.chance(0.5);
    c.denorm_depth = r.chance(0.5) ? 1 : (int)r.range(2, 13);
    c.zero_style = r.chance(0.7) ? 0 : (int)r.range(1, 3);
    c.abs_bits = r.chance(0.92) ? 0 : 2 * (int)r.range(1, 3);
    c.nodes = r.chance(0.08);
    return c;
}

J to_json(const Choices& c) {
    J j = J::obj();
    j.set("elflags", c.elflags);
    j.set("header_extras", c.header_extras);
    j.set("box_for_rect", c.box_for_rect);
    j.set("explicit_defaults", c.explicit_defaults);
    j.set("omit_zero_width", c.omit_zero_width);
    j.set("denorm_reals", c.denorm_reals);
    j.set("denorm_depth", (int64_t)c.denorm_depth);
    j.set("zero_style", (int64_t)c.zero_style);
    j.set("abs_bits", (int64_t)c.abs_bits);
    j.set("nodes", c.nodes);
    j.set("pad_after_endlib", c.pad_after_endlib);
    j.set("xy_split", c.xy_split);
    j.set("text_path_records", c.text_path_records);
    j.set("font_bits", c.font_bits);
    j.set("aref", c.aref);
    j.set("version", (int)c.version);
    J ts = J::arr();
    for (uint16_t v : c.lib_ts) ts.push((int)v);
    j.set("lib_ts", ts);
    j.set("str_ts_differs", c.str_ts_differs);
    return j;
}

Choices choices_from(const J& j) {
    Choices c;
    c.elflags = j.getb("elflags");
    c.header_extras = j.getb("header_extras");
    c.box_for_rect = j.getb("box_for_rect");
    c.explicit_defaults = j.getb("explicit_defaults");
    c.omit_zero_width = j.getb("omit_zero_width");
    c.denorm_reals = j.getb("denorm_reals");
    c.denorm_depth = j.has("denorm_depth") ? (int)j.geti("denorm_depth") : 1;
    c.zero_style = j.has("zero_style") ? (int)j.geti("zero_style") : 0;
    c.abs_bits = (int)j.geti("abs_bits", 0);
    c.nodes = j.getb("nodes");
    c.pad_after_endlib = j.getb("pad_after_endlib");
    c.xy_split = (int)j.geti("xy_split");
    c.text_path_records = j.getb("text_path_records");
    c.font_bits = j.getb("font_bits");
    c.aref = j.getb("aref", true);
    c.version = (uint16_t)j.geti("version", 600);
    const J& ts = j.at("lib_ts");
    for (size_t i = 0; i < 12 && i < ts.a.size(); i++) c.lib_ts[i] = (uint16_t)ts.a[i].i;
    c.str_ts_differs = j.getb("str_ts_differs");
    return c;
}

static bool is_axis_rect(const std::vector<Pt>& v) {
    if (v.size() != 4) return false;
    bool a = v[0].x == v[1].x && v[1].y == v[2].y && v[2].x == v[3].x && v[3].y == v[0].y;
    bool b = v[0].y == v[1].y && v[1].x == v[2].x && v[2].y == v[3].y && v[3].x == v[0].x;
    return a || b;
}

std::vector<uint8_t> encode(const model::MLib& m, const Choices& c, bool* expect_unsupported) {
    Enc e;
    bool unsupported = false;
    e.rec_i16(HEADER, {c.version});
    e.head(24, BGNLIB, DT_I16);
    for (uint16_t v : c.lib_ts) e.u16(v);
    e.rec_str(LIBNAME, m.name);
    if (c.header_extras) {
        e.rec_str(REFLIBS, std::string(90, '\0'));
        e.rec_str(FONTS, std::string(176, '\0'));
        e.rec_i16(GENERATIONS, {3});
        unsupported = true;
    }
    e.rec_r64(UNITS, {m.precision / m.unit, m.precision}, c.denorm_reals ? c.denorm_depth : 0);
    // min_first: smallest number of points in the first record of a list (a first record with a single point is
    // legal for a PATH too: the element is complete only at ENDEL)
    auto put_xy = [&](const std::vector<int32_t>& coords, size_t min_first) {
        size_t npts = coords.size() / 2;
        size_t per = c.xy_split > 0 ? (size_t)c.xy_split : 8190;
        if (per > 8190) per = 8190;
        for (size_t i = 0; i < npts;) {
            size_t k = std::min(i == 0 ? std::max(per, min_first) : per, npts - i);
            std::vector<int32_t> part(coords.begin() + 2 * i, coords.begin() + 2 * (i + k));
            e.rec_i32(XY, part);
            i += k;
        }
    };
    auto put_props = [&](const std::vector<model::MProp>& ps) {
        for (auto& p : ps) {
            if (p.name != "S_GDS_PROPERTY" || p.vals.size() < 2) continue;
            e.rec_i16(PROPATTR, {(uint16_t)p.vals[0].u});
            std::string v = p.vals[1].s;
            while (!v.empty() && v.back() == '\0') v.pop_back();
            e.rec_str(PROPVALUE, v);
        }
    };
    auto put_elflags = [&]() {
        if (c.elflags) {
            e.rec_i16(ELFLAGS, {0x0001}, DT_BITS);
            e.rec_i32(PLEX, {0x01000002});
            unsupported = true;
        }
    };
    auto put_strans = [&](bool xrefl, double mag, double rot) {
        bool nondefault = xrefl || mag != 1 || rot != 0 || c.abs_bits;
        if (!nondefault && !c.explicit_defaults) return;
        if (c.abs_bits) unsupported = true;
        e.rec_i16(STRANS, {(uint16_t)((xrefl ? 0x8000 : 0) | (c.abs_bits & 0x0006))}, DT_BITS);
        if (mag != 1 || c.explicit_defaults) e.rec_r64(MAG, {mag}, c.denorm_reals ? c.denorm_depth : 0);
        if (rot != 0 || c.explicit_defaults) e.rec_r64(ANGLE, {rot}, c.denorm_reals ? c.denorm_depth : 0, c.zero_style);
    };
    size_t ci = 0;
    for (auto& cell : m.cells) {
        e.head(24, BGNSTR, DT_I16);
        for (int i = 0; i < 12; i++) {
            uint16_t v = c.lib_ts[i];
            if (c.str_ts_differs && i % 6 == 5) v = (uint16_t)((v + 1 + ci) % 60);
            e.u16(v);
        }
        ci++;
        e.rec_str(STRNAME, cell.name);
        // a NODE element (electrical net): LAYER NODETYPE XY(1 to 50 points), properties allowed
        auto put_node = [&](int k) {
            if (!c.nodes) return;
            unsupported = true;
            e.rec0(NODE);
            put_elflags();
            e.rec_i16(LAYER, {(uint16_t)((ci + (size_t)k) % 64)});
            e.rec_i16(NODETYPE, {(uint16_t)(k + 1)});
            std::vector<int32_t> co;
            for (int i = 0; i <= k; i++) {
                co.push_back((int32_t)(100 * (int)ci + 7 * i));
                co.push_back((int32_t)(-50 * (int)ci + 11 * i));
            }
            e.rec_i32(XY, co);
            if (k == 1) {
                e.rec_i16(PROPATTR, {(uint16_t)(10 + ci % 100)});
                e.rec_str(PROPVALUE, "net" + std::to_string(ci));
            }
            e.rec0(ENDEL);
        };
        put_node(0);
        for (auto& p : cell.polys) {
            bool box = c.box_for_rect && is_axis_rect(p.pts);
            e.rec0(box ? BOX : BOUNDARY);
            put_elflags();
            e.rec_i16(LAYER, {(uint16_t)p.layer});
            e.rec_i16(box ? BOXTYPE : DATATYPE, {(uint16_t)p.dtype});
            std::vector<int32_t> co;
            for (auto& q : p.pts) {
                co.push_back(grid(q.x));
                co.push_back(grid(q.y));
            }
            if (!p.pts.empty()) {
                co.push_back(grid(p.pts[0].x));
                co.push_back(grid(p.pts[0].y));
            }
            if (box) {
                e.rec_i32(XY, co);  // a BOX is always one five-point record
            } else {
                put_xy(co, 1);
            }
            put_props(p.props);
            e.rec0(ENDEL);
        }
        for (auto& p : cell.paths) {
            e.rec0(PATH);
            put_elflags();
            e.rec_i16(LAYER, {(uint16_t)p.layer});
            e.rec_i16(DATATYPE, {(uint16_t)p.dtype});
            int pt = p.end == model::END_ROUND ? 1 : p.end == model::END_HALF ? 2 : p.end == model::END_EXT ? 4 : 0;
            if (pt != 0 || c.explicit_defaults) e.rec_i16(PATHTYPE, {(uint16_t)pt});
            int32_t w = (int32_t)(p.hw / 5);
            if (!p.scale_width) w = -w;
            if (w != 0 || !c.omit_zero_width) e.rec_i32(WIDTH, {w});
            if (pt == 4) {
                // each of the two is optional on its own; an absent one means zero
                if (grid(p.eu) != 0 || c.explicit_defaults) e.rec_i32(BGNEXTN, {grid(p.eu)});
                if (grid(p.ev) != 0 || c.explicit_defaults) e.rec_i32(ENDEXTN, {grid(p.ev)});
            }
            std::vector<int32_t> co;
            for (auto& q : model::centre_line(p)) {
                co.push_back(grid(q.x));
                co.push_back(grid(q.y));
            }
            put_xy(co, 1);
            put_props(p.props);
            e.rec0(ENDEL);
        }
        put_node(1);
        for (auto& l : cell.labels) {
            e.rec0(TEXT);
            put_elflags();
            e.rec_i16(LAYER, {(uint16_t)l.layer});
            e.rec_i16(TEXTTYPE, {(uint16_t)l.ttype});
            uint16_t pres = (uint16_t)(l.anchor & 0xF);
            if (c.font_bits) pres |= 0x0020;
            if (pres != 0 || c.explicit_defaults) e.rec_i16(PRESENTATION, {pres}, DT_BITS);
            if (c.text_path_records) {
                e.rec_i16(PATHTYPE, {1});
                e.rec_i32(WIDTH, {-7});
            }
            put_strans(l.xrefl, l.mag, l.rot_deg);
            e.rec_i32(XY, {grid(l.origin.x), grid(l.origin.y)});
            e.rec_str(STRING, l.text);
            put_props(l.props);
            e.rec0(ENDEL);
        }
        for (auto& r : cell.refs) {
            // COLROW is a pair of signed 16-bit counts: a larger array is a set of AREF blocks (very large arrays
            // are always written that way: one SREF per instance would only be bulk)
            bool lattice = (r.rep.type == model::REP_REGULAR || r.rep.type == model::REP_RECT) &&
                           (c.aref || r.rep.cols * r.rep.rows > 2000);
            Pt v1 = r.rep.type == model::REP_RECT ? Pt{r.rep.sp.x, 0} : r.rep.v1;
            Pt v2 = r.rep.type == model::REP_RECT ? Pt{0, r.rep.sp.y} : r.rep.v2;
            std::vector<Pt> origins;
            std::vector<std::pair<uint64_t, uint64_t>> blocks;
            if (lattice) {
                for (uint64_t c0 = 0; c0 < r.rep.cols; c0 += 32767)
                    for (uint64_t r0 = 0; r0 < r.rep.rows; r0 += 32767) {
                        origins.push_back(Pt{r.origin.x + (dg_t)c0 * v1.x + (dg_t)r0 * v2.x, r.origin.y + (dg_t)c0 * v1.y + (dg_t)r0 * v2.y});
                        blocks.push_back({std::min<uint64_t>(r.rep.cols - c0, 32767), std::min<uint64_t>(r.rep.rows - r0, 32767)});
                    }
            } else {
                uint64_t cols = r.rep.type ? r.rep.cols : 1, rows = r.rep.type ? r.rep.rows : 1;
                for (uint64_t i = 0; i < cols; i++)
                    for (uint64_t j = 0; j < rows; j++)
                        origins.push_back(Pt{r.origin.x + (dg_t)i * v1.x + (dg_t)j * v2.x,
                                             r.origin.y + (dg_t)i * v1.y + (dg_t)j * v2.y});
            }
            for (size_t oi = 0; oi < origins.size(); oi++) {
                const Pt& o = origins[oi];
                e.rec0(lattice ? AREF : SREF);
                put_elflags();
                e.rec_str(SNAME, r.target);
                put_strans(r.xrefl, r.mag, r.rot_deg);
                if (lattice) {
                    dg_t bc = (dg_t)blocks[oi].first, br = (dg_t)blocks[oi].second;
                    e.rec_i16(COLROW, {(uint16_t)bc, (uint16_t)br});
                    e.rec_i32(XY, {grid(o.x), grid(o.y), grid(o.x + bc * v1.x), grid(o.y + bc * v1.y), grid(o.x + br * v2.x),
                                   grid(o.y + br * v2.y)});
                } else {
                    e.rec_i32(XY, {grid(o.x), grid(o.y)});
                }
                put_props(r.props);
                e.rec0(ENDEL);
            }
        }
        e.rec0(ENDSTR);
    }
    e.rec0(ENDLIB);
    if (c.pad_after_endlib) e.out.insert(e.out.end(), 2048 - e.out.size() % 2048, 0);
    if (expect_unsupported) *expect_unsupported = unsupported;
    return e.out;
}

}  // namespace gdspeer
