// Independent GDSII codec ("peer tool"), written from the GDSII Stream Format (release 6.0) for this
// checker.  Shares no code and no tables with gdstk.
//   decode(): strict decoder -> model::MLib + byte ranges of every record / structure / timestamp
//   encode(): encoder from model::MLib with explicit serialisation choices
#ifndef GDSIM_GDS_PEER_HPP
#define GDSIM_GDS_PEER_HPP

#include <array>
#include <map>

#include "model.hpp"
#include "sim.hpp"

namespace gdspeer {

enum RecType : uint8_t {
    HEADER = 0x00, BGNLIB = 0x01, LIBNAME = 0x02, UNITS = 0x03, ENDLIB = 0x04, BGNSTR = 0x05,
    STRNAME = 0x06, ENDSTR = 0x07, BOUNDARY = 0x08, PATH = 0x09, SREF = 0x0A, AREF = 0x0B,
    TEXT = 0x0C, LAYER = 0x0D, DATATYPE = 0x0E, WIDTH = 0x0F, XY = 0x10, ENDEL = 0x11,
    SNAME = 0x12, COLROW = 0x13, TEXTNODE = 0x14, NODE = 0x15, TEXTTYPE = 0x16,
    PRESENTATION = 0x17, STRING = 0x19, STRANS = 0x1A, MAG = 0x1B, ANGLE = 0x1C,
    REFLIBS = 0x1F, FONTS = 0x20, PATHTYPE = 0x21, GENERATIONS = 0x22, ATTRTABLE = 0x23,
    ELFLAGS = 0x26, NODETYPE = 0x2A, PROPATTR = 0x2B, PROPVALUE = 0x2C, BOX = 0x2D,
    BOXTYPE = 0x2E, PLEX = 0x2F, BGNEXTN = 0x30, ENDEXTN = 0x31, FORMAT = 0x36
};

enum DataType : uint8_t { DT_NONE = 0, DT_BITS = 1, DT_I16 = 2, DT_I32 = 3, DT_R32 = 4, DT_R64 = 5, DT_STR = 6 };

struct Rec {
    uint32_t off;
    uint32_t len;
    uint8_t type, dt;
};

struct StructRange {
    std::string name;
    uint32_t begin = 0, end = 0;   // [begin, end): BGNSTR .. end of ENDSTR
    uint32_t ts_payload = 0;       // offset of the 24 timestamp bytes
    std::vector<std::string> snames;
};

struct Census {
    uint64_t boundary = 0, box = 0, path = 0, sref = 0, aref = 0, text = 0, props = 0, multi_xy = 0;
};

struct Decoded {
    bool ok = false;            // container well-formed and ENDLIB reached
    bool strict_ok = false;     // additionally every strict rule holds
    std::string error;          // first problem (container or strict)
    model::MLib lib;
    std::vector<Rec> recs;
    std::vector<StructRange> structs;
    uint32_t lib_ts_payload = 0;        // offset of the 24 BGNLIB payload bytes
    uint32_t endlib_end = 0;            // offset just after the ENDLIB record
    std::array<uint16_t, 12> lib_ts{};
    std::vector<std::array<uint16_t, 12>> str_ts;
    double db_in_user = 0, db_in_meters = 0;
    bool has_unsupported = false;       // records gdstk is documented to flag as unsupported
    Census census;
    // summary in the shape of gdstk's LibraryInfo
    std::vector<std::string> cell_names;
    std::map<uint64_t, int> shape_tags, label_tags;
    uint64_t num_polygons = 0, num_paths = 0, num_references = 0, num_labels = 0;
};

inline uint16_t be16(const uint8_t* p) { return (uint16_t)((p[0] << 8) | p[1]); }
inline int32_t be32(const uint8_t* p) {
    return (int32_t)(((uint32_t)p[0] << 24) | ((uint32_t)p[1] << 16) | ((uint32_t)p[2] << 8) | p[3]);
}
inline uint64_t be64(const uint8_t* p) {
    uint64_t v = 0;
    for (int i = 0; i < 8; i++) v = (v << 8) | p[i];
    return v;
}

// excess-64, base-16, 56-bit mantissa
inline double real8_decode(uint64_t v) {
    uint64_t mant = v & 0x00FFFFFFFFFFFFFFULL;
    int e = (int)((v >> 56) & 0x7F) - 64;
    double r = ldexp((double)mant, 4 * e - 56);
    return (v >> 63) ? -r : r;
}

// denorm: how many hexadecimal digits the mantissa is shifted down (same value, not normalised)
// zero_style: 0 all bits clear; bit 0 sets the sign of a zero; bit 1 gives a zero an exponent
inline uint64_t real8_encode(double x, int denorm = 0, int zero_style = 0) {
    if (x == 0) return ((zero_style & 1) ? 1ULL << 63 : 0) | ((zero_style & 2) ? 0x45ULL << 56 : 0);
    uint64_t sign = 0;
    if (x < 0) {
        sign = 1ULL << 63;
        x = -x;
    }
    int k;
    double f = frexp(x, &k);  // x = f * 2^k, f in [0.5, 1)
    int e = (k >= 0) ? (k + 3) / 4 : -((-k) / 4);  // ceil(k / 4)
    int shift = 56 + k - 4 * e;                    // in 53..56
    uint64_t mant = (uint64_t)ldexp(f, shift);     // exact: f has at most 53 significant bits
    if (mant >> 56) {                              // cannot happen, guard anyway
        mant >>= 4;
        e++;
    }
    for (int i = 0; i < denorm && (mant & 0xF) == 0 && e + 64 < 127; i++) {  // same value, non-normalised
        mant >>= 4;
        e++;
    }
    return sign | ((uint64_t)(e + 64) << 56) | mant;
}

inline int expected_dt(uint8_t type) {
    switch (type) {
        case HEADER: case BGNLIB: case BGNSTR: case LAYER: case DATATYPE: case COLROW:
        case TEXTTYPE: case PATHTYPE: case GENERATIONS: case NODETYPE: case PROPATTR:
        case BOXTYPE: case FORMAT:
            return DT_I16;
        case LIBNAME: case STRNAME: case SNAME: case STRING: case REFLIBS: case FONTS:
        case ATTRTABLE: case PROPVALUE:
            return DT_STR;
        case UNITS: case MAG: case ANGLE: return DT_R64;
        case ENDLIB: case ENDSTR: case BOUNDARY: case PATH: case SREF: case AREF: case TEXT:
        case ENDEL: case TEXTNODE: case NODE: case BOX:
            return DT_NONE;
        case WIDTH: case XY: case PLEX: case BGNEXTN: case ENDEXTN: return DT_I32;
        case PRESENTATION: case STRANS: case ELFLAGS: return DT_BITS;
        default: return -1;
    }
}

inline std::string rec_string(const uint8_t* p, uint32_t n) {
    std::string s((const char*)p, n);
    while (!s.empty() && s.back() == '\0') s.pop_back();
    return s;
}

Decoded decode(const std::vector<uint8_t>& bytes);

// ---------------------------------------------------------------- encoder
struct Choices {
    bool elflags = false;        // ELFLAGS / PLEX on elements (gdstk: UnsupportedRecord)
    bool header_extras = false;  // REFLIBS/FONTS/GENERATIONS/ATTRTABLE (gdstk: UnsupportedRecord)
    bool box_for_rect = false;   // rectangles as BOX + BOXTYPE
    bool explicit_defaults = false;  // PATHTYPE 0, STRANS 0, MAG 1, ANGLE 0 written although default
    bool omit_zero_width = false;    // WIDTH omitted when 0
    bool denorm_reals = false;
    int denorm_depth = 1;  // hexadecimal digits shifted when denorm_reals
    int zero_style = 0;    // how a real zero is spelt (sign bit, exponent bits)
    bool pad_after_endlib = false;
    int xy_split = 0;            // >0: split XY lists into records of at most this many points
    bool text_path_records = false;  // PATHTYPE/WIDTH inside TEXT
    bool font_bits = false;      // font bits set in PRESENTATION
    int abs_bits = 0;            // STRANS bits 1-2 (absolute magnification / angle): flagged as unsupported, nothing else changes
    bool nodes = false;          // NODE elements between the others (unsupported: skipped whole, nothing else changes)
    bool aref = true;            // lattices as AREF where the model has a regular repetition
    uint16_t version = 600;
    std::array<uint16_t, 12> lib_ts{{2020, 1, 2, 3, 4, 5, 2021, 6, 7, 8, 9, 10}};
    bool str_ts_differs = false; // BGNSTR carries another timestamp than BGNLIB
};

Choices random_choices(sim::Rng& r);
J to_json(const Choices& c);
Choices choices_from(const J& j);

// Encodes `m` (GDSII data model: no repetition except REP_REGULAR/REP_RECT on references, which
// become AREF when c.aref, integer grid coordinates only).  `expect_unsupported` is set when the
// stream contains records gdstk documents as unsupported.
std::vector<uint8_t> encode(const model::MLib& m, const Choices& c, bool* expect_unsupported);

}  // namespace gdspeer

#endif
