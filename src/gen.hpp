// Seeded generators for the abstract model, honouring each property's quantifier.
#ifndef GDSIM_GEN_HPP
#define GDSIM_GEN_HPP

#include <math.h>

#include <set>

#include "canon.hpp"
#include "model.hpp"
#include "sim.hpp"

namespace gen {

using model::dg_t;
using model::Pt;
using sim::Rng;

struct Cfg {
    canon::Mode mode = canon::GDS;
    int max_cells = 6;
    int max_elems = 12;       // per kind and cell
    int max_vertices = 40;
    bool big_polygons = false;    // allow one polygon above 8190 vertices
    bool nonsimple_paths = false; // allow non-simple (multi-element / tapered) paths
    bool close_vertices = false;  // allow path vertices exactly one grid step apart
    bool robust_paths = false;
    bool named_props_in_gds = false;  // GDSII-mode models whose elements also carry named (non-GDSII) properties
    bool rings = false;           // rings drawn as one boundary (outer contour, seam, inner contour) even where only simple polygons are wanted
    bool multi_element_simple_paths = false;  // simple FlexPaths with 2-3 parallel elements (one PATH each)
    bool dangling = false;        // references to cells that are not in the library
    bool props = true;
    bool reps = true;
    bool simple_polys_only = false;  // only simple polygons (required for OASIS and for fracturing)
    bool long_strings = false;
    uint64_t vertex_limit = 0;    // the vertex limit the library will be saved with, where the plan knows it (sizes some shapes around it)
    bool neg_explicit = true;     // negative ExplicitX/Y coordinates
    bool force_ongrid = false;    // integer grid coordinates only
    bool compact = false;         // small files only: no many-cell libraries, no large lattice counts (exhaustive sweeps)
};

struct Ctx {
    Rng& r;
    const Cfg& cfg;
    bool offgrid;
    dg_t span;  // typical coordinate magnitude in grid steps
    std::vector<std::string> strings;  // string property values used so far in this library
};

inline dg_t frac(Ctx& c) {
    static const int d[] = {1, 2, 3, 4, 6, 7, 8, 9};
    if (!c.offgrid || !c.r.chance(0.5)) return 0;
    return d[c.r.below(8)];
}
// coordinate in decigrid around 0 with magnitude up to span grid steps
inline dg_t coord(Ctx& c) { return c.r.range(-c.span, c.span) * 10 + frac(c); }
inline dg_t ongrid(Ctx& c, int64_t lo, int64_t hi) { return c.r.range(lo, hi) * 10; }
inline Pt point(Ctx& c) { return Pt{coord(c), coord(c)}; }

inline std::string ident(Rng& r, int minlen, int maxlen) {
    static const char cs[] = "ABCDEFGHIJKLMNOPQRSTUVWXYZabcdefghijklmnopqrstuvwxyz0123456789_$";
    int n = (int)r.range(minlen, maxlen);
    std::string s;
    for (int i = 0; i < n; i++) s += cs[r.below(i == 0 ? 52 : sizeof(cs) - 1)];
    return s;
}
inline std::string text(Rng& r, int minlen, int maxlen, bool spaces) {
    int n = (int)r.range(minlen, maxlen);
    std::string s;
    for (int i = 0; i < n; i++) {
        char ch = (char)r.range(0x21, 0x7e);
        if (spaces && i > 0 && i + 1 < n && r.chance(0.15)) ch = ' ';
        s += ch;
    }
    return s;
}

inline uint32_t tagval(Ctx& c) {
    Rng& r = c.r;
    if (c.cfg.mode == canon::OAS && r.chance(0.1)) {
        static const uint32_t big[] = {65535u, 65536u, 1000000u, 0x7fffffffu, 0xffffffffu, 32768u};
        return big[r.below(6)];
    }
    if (r.chance(0.1)) {
        static const uint32_t edge[] = {0, 255, 256, 32767, 127, 128, 1000};
        return edge[r.below(7)];
    }
    return (uint32_t)r.below(r.chance(0.7) ? 8 : 300);
}

// ---------------------------------------------------------------- exact predicates (decigrid)
inline __int128 orient(const Pt& a, const Pt& b, const Pt& c) {
    return (__int128)(b.x - a.x) * (c.y - a.y) - (__int128)(b.y - a.y) * (c.x - a.x);
}
inline int sgn(__int128 v) { return v > 0 ? 1 : (v < 0 ? -1 : 0); }
inline bool on_seg(const Pt& a, const Pt& b, const Pt& p) {
    return std::min(a.x, b.x) <= p.x && p.x <= std::max(a.x, b.x) && std::min(a.y, b.y) <= p.y &&
           p.y <= std::max(a.y, b.y);
}
inline bool seg_touch(const Pt& a, const Pt& b, const Pt& c, const Pt& d) {
    int o1 = sgn(orient(a, b, c)), o2 = sgn(orient(a, b, d)), o3 = sgn(orient(c, d, a)),
        o4 = sgn(orient(c, d, b));
    if (o1 != o2 && o3 != o4) return true;
    if (o1 == 0 && on_seg(a, b, c)) return true;
    if (o2 == 0 && on_seg(a, b, d)) return true;
    if (o3 == 0 && on_seg(c, d, a)) return true;
    if (o4 == 0 && on_seg(c, d, b)) return true;
    return false;
}
// simple = no two non-adjacent edges touch, adjacent edges only share their common vertex,
// non-zero area; evaluated on the grid-rounded vertices (what ends up in a file)
inline bool is_simple(const std::vector<Pt>& in) {
    std::vector<Pt> v;
    for (auto& p : in) {
        Pt g{canon::rgrid(p.x), canon::rgrid(p.y)};
        if (v.empty() || v.back().x != g.x || v.back().y != g.y) v.push_back(g);
    }
    while (v.size() > 1 && v.front().x == v.back().x && v.front().y == v.back().y) v.pop_back();
    size_t n = v.size();
    if (n < 3 || n != in.size()) return false;
    __int128 a2 = 0;
    for (size_t i = 0; i < n; i++)
        a2 += (__int128)v[i].x * v[(i + 1) % n].y - (__int128)v[(i + 1) % n].x * v[i].y;
    if (a2 == 0) return false;
    for (size_t i = 0; i < n; i++) {
        const Pt &a = v[i], &b = v[(i + 1) % n];
        // adjacent edge: must not fold back
        const Pt& c = v[(i + 2) % n];
        if (orient(a, b, c) == 0 && on_seg(a, b, c)) return false;
        if (orient(a, b, c) == 0 && on_seg(b, c, a)) return false;
        for (size_t j = i + 2; j < n; j++) {
            if (i == 0 && j == n - 1) continue;
            if (seg_touch(a, b, v[j], v[(j + 1) % n])) return false;
        }
    }
    return true;
}

// ---------------------------------------------------------------- polygons
inline std::vector<Pt> rect_pts(Pt o, dg_t w, dg_t h) {
    return {Pt{o.x, o.y}, Pt{o.x + w, o.y}, Pt{o.x + w, o.y + h}, Pt{o.x, o.y + h}};
}

inline void shuffle_cycle(Rng& r, std::vector<Pt>& v) {
    size_t k = r.below(v.size());
    std::rotate(v.begin(), v.begin() + k, v.end());
    if (r.chance(0.5)) std::reverse(v.begin(), v.end());
}

inline std::vector<Pt> star_polygon(Ctx& c, int n, Pt ctr, double rmin, double rmax) {
    std::vector<double> ang;
    for (int tries = 0; tries < 20; tries++) {
        ang.clear();
        for (int i = 0; i < n; i++) ang.push_back(c.r.unit() * 2 * M_PI);
        std::sort(ang.begin(), ang.end());
        bool ok = true;
        for (int i = 0; i < n; i++) {
            double gap = (i + 1 < n ? ang[i + 1] : ang[0] + 2 * M_PI) - ang[i];
            if (gap < 0.09 || gap > 0.9 * M_PI) ok = false;
        }
        if (ok) break;
        ang.clear();
    }
    if (ang.empty())
        for (int i = 0; i < n; i++) ang.push_back(2 * M_PI * i / n + 0.01);
    std::vector<Pt> v;
    for (int i = 0; i < n; i++) {
        double rad = rmin + (rmax - rmin) * c.r.unit();
        dg_t x = ctr.x + (dg_t)llround(rad * cos(ang[i]) * 10.0);
        dg_t y = ctr.y + (dg_t)llround(rad * sin(ang[i]) * 10.0);
        if (!c.offgrid) {
            x = canon::rgrid(x) * 10;
            y = canon::rgrid(y) * 10;
        } else {
            if (llabs(x % 10) == 5) x += 1;
            if (llabs(y % 10) == 5) y += 1;
        }
        v.push_back(Pt{x, y});
    }
    return v;
}

inline std::vector<Pt> staircase(Ctx& c, int steps) {
    // monotone staircase closed along the axes: simple by construction
    Pt o = point(c);
    o.x = canon::rgrid(o.x) * 10;
    o.y = canon::rgrid(o.y) * 10;
    std::vector<Pt> v;
    dg_t x = o.x, y = o.y;
    v.push_back(Pt{x, y});
    for (int i = 0; i < steps; i++) {
        x += ongrid(c, 2, 40);
        v.push_back(Pt{x, y});
        y += ongrid(c, 2, 40);
        v.push_back(Pt{x, y});
    }
    v.push_back(Pt{o.x, y});
    return v;
}

inline std::vector<Pt> trapezoid(Ctx& c) {
    Pt o = point(c);
    dg_t h = ongrid(c, 2, 60), w = ongrid(c, 4, 120);
    auto slope = [&](void) -> dg_t {
        switch (c.r.below(5)) {
            case 0: return 0;
            case 1: return h;
            case 2: return -h;
            default: return ongrid(c, -30, 30);
        }
    };
    dg_t a = slope(), b = slope();
    // bottom (0,0)-(w,0); top (a,h)-(w-b,h); keep the top edge non-negative
    if (w - b - a < 0) {
        a = 0;
        b = 0;
    }
    std::vector<Pt> v;
    if (c.r.chance(0.5)) {
        v = {Pt{o.x, o.y}, Pt{o.x + w, o.y}, Pt{o.x + w - b, o.y + h}, Pt{o.x + a, o.y + h}};
    } else {  // vertical variant
        v = {Pt{o.x, o.y}, Pt{o.x, o.y + w}, Pt{o.x + h, o.y + w - b}, Pt{o.x + h, o.y + a}};
    }
    if (w - b - a == 0) v.erase(v.begin() + (c.r.chance(0.5) ? 2 : 3));  // triangle
    return v;
}

// the eight triangular compact-trapezoid shapes (OASIS CTRAPEZOID types 16-23): isosceles right
// triangles on a square (16-19) and on a 2:1 box lying (20, 21) or standing (22, 23)
inline std::vector<Pt> ctrap_triangle(Ctx& c) {
    Pt o = point(c);
    o.x = canon::rgrid(o.x) * 10;
    o.y = canon::rgrid(o.y) * 10;
    dg_t d = ongrid(c, 1, 90);
    auto P = [&](dg_t x, dg_t y) { return Pt{o.x + x, o.y + y}; };
    switch (c.r.below(8)) {
        case 0: return {P(0, 0), P(0, d), P(d, 0)};
        case 1: return {P(0, 0), P(0, d), P(d, d)};
        case 2: return {P(0, 0), P(d, d), P(d, 0)};
        case 3: return {P(0, d), P(d, d), P(d, 0)};
        case 4: return {P(0, 0), P(d, d), P(2 * d, 0)};
        case 5: return {P(0, d), P(2 * d, d), P(d, 0)};
        case 6: return {P(0, 0), P(0, 2 * d), P(d, d)};
        default: return {P(0, d), P(d, 2 * d), P(d, 0)};
    }
}

inline model::MProp gds_prop(Rng& r, uint64_t attr, bool long_ok) {
    model::MProp p;
    p.name = "S_GDS_PROPERTY";
    model::MVal a;
    a.kind = 0;
    a.u = attr;
    model::MVal v;
    v.kind = 3;
    int n = (int)r.range(1, 17);
    if (long_ok && r.chance(0.05)) n = r.chance(0.4) ? (int)r.range(124, 130) : (int)r.range(100, 400);  // 126/128: the format's and the writer's limits
    if (r.chance(0.03)) n = 0;
    v.s = text(r, n, n, true);
    switch (r.below(6)) {
        case 0: break;                              // no terminator (set through set_property)
        case 1: v.s += std::string(2, '\0'); break; // padded twice
        default: v.s += '\0';                       // what set_gds_property stores
    }
    p.vals = {a, v};
    return p;
}

inline model::MVal any_val(Rng& r) {
    model::MVal v;
    switch (r.below(7)) {
        case 0:
            v.kind = 0;
            v.u = r.chance(0.2) ? r.next() : r.below(1000);
            if (r.chance(0.05)) {
                static const uint64_t edge[] = {127, 128, 16383, 16384, 0x7fffffffffffffffULL, 0x8000000000000000ULL, 0xffffffffffffffffULL};
                v.u = edge[r.below(7)];
            }
            break;
        case 1:
            v.kind = 1;
            v.i = r.chance(0.2) ? (int64_t)(r.next() >> 1) * (r.chance(0.5) ? -1 : 1)
                                : r.range(-1000, 1000);
            if (r.chance(0.05)) {
                // (the most negative value itself is known finding F26 and kept out: it would hide behind that finding)
                static const int64_t edge[] = {63, 64, -63, -64, 8191, 8192, -8192, INT64_MAX, INT64_MIN + 1};
                v.i = edge[r.below(9)];
            }
            break;
        case 2: {
            v.kind = 2;
            static const double rs[] = {0.0,  1.0,   -1.0, 0.5,    -0.25,   2.5,       1e-3,
                                        -7.0, 1e9,   0.1,  3.1416, -1234.5, 1.0 / 3.0, 6.25e-2,
                                        12345678.0,  1e-9, 299792.458};
            v.r = rs[r.below(sizeof(rs) / sizeof(rs[0]))];
            if (r.chance(0.15)) {
                // values next to the ones that have a compact encoding (integers, reciprocals), and the ends of the range
                static const double base[] = {0.2, 1.0 / 3.0, 0.1, 0.5, 7.0, 1e15, 0.01, 1.0 / 7.0};
                double b = base[r.below(8)];
                switch (r.below(5)) {
                    case 0: v.r = nextafter(b, 0.0); break;
                    case 1: v.r = nextafter(b, 10.0 * b); break;
                    case 2: v.r = -nextafter(b, 0.0); break;
                    case 3: {
                        static const double ends[] = {1e19, -1e19, 18446744073709551616.0, 9223372036854775808.0, 1.7976931348623157e308, 4.9406564584124654e-324, -2.2250738585072014e-308, 1e-300};
                        v.r = ends[r.below(8)];
                    } break;
                    default: v.r = -b;
                }
            }
        } break;
        case 3:
            v.kind = 3;
            v.s = ident(r, 1, 12);  // n-string
            break;
        case 4:
            v.kind = 3;
            v.s = r.chance(0.03) ? text(r, 126, 130, true) : text(r, 1, 20, true);  // a-string
            if (r.chance(0.06)) {
                // one byte just outside the printable range among printable ones (0x7F, 0x1F, 0x80): a b-string
                static const char edge[] = {'\x7f', '\x1f', (char)0x80};
                v.s[r.below(v.s.size())] = edge[r.below(3)];
            }
            break;
        case 5: {
            v.kind = 3;  // b-string
            int n = (int)r.range(0, 12);
            for (int i = 0; i < n; i++) v.s += (char)r.below(256);
        } break;
        default:
            v.kind = 3;
            v.s = "";
    }
    return v;
}

inline std::vector<model::MProp> props(Ctx& c, bool element) {
    std::vector<model::MProp> ps;
    Rng& r = c.r;
    if (!c.cfg.props || !r.chance(0.3)) return ps;
    int n = (int)r.range(1, 3);
    if (r.chance(0.1)) n = (int)r.range(4, 6);
    std::set<uint64_t> attrs;
    static const char* const names[] = {"PROP_A", "net", "device.w", "P1", "a_rather_long_property_name_0123456789"};
    for (int i = 0; i < n; i++) {
        // (GDSII holds only the numbered attribute/value pairs; a library may carry named properties next to
        // them all the same, anywhere in the list: they are simply not written)
        bool named_in_gds = c.cfg.mode == canon::GDS && element && c.cfg.named_props_in_gds && r.chance(0.25);
        if (element && !named_in_gds && (c.cfg.mode == canon::GDS || r.chance(0.4))) {
            uint64_t attr = r.chance(0.85) ? (uint64_t)r.range(1, 127) : (uint64_t)r.range(0, 65535);
            if (!attrs.insert(attr).second) continue;
            ps.push_back(gds_prop(r, attr, c.cfg.long_strings));
        } else if (c.cfg.mode == canon::OAS || named_in_gds) {
            model::MProp p;
            p.name = r.chance(0.7) ? names[r.below(5)] : ident(r, 1, 10);
            int nv = (int)r.range(0, 4);
            if (r.chance(0.04)) nv = (int)r.range(15, 20);
            if (r.chance(0.003) && !c.cfg.compact) nv = (int)r.range(254, 300);  // a count that needs more than one byte
            for (int k = 0; k < nv; k++) {
                model::MVal v = any_val(r);
                if (v.kind == 3) {
                    // string tables are de-duplicated by the writer: equal values, and values that differ
                    // from an earlier one in a single byte (behind a NUL, too) must stay what they are
                    if (!c.strings.empty() && r.chance(0.2)) {
                        v.s = c.strings[r.below(c.strings.size())];
                        if (!v.s.empty() && r.chance(0.6)) {
                            if (v.s.size() >= 3 && r.chance(0.5)) v.s[r.below(v.s.size() - 1)] = '\0';
                            size_t at = r.chance(0.7) ? v.s.size() - 1 : r.below(v.s.size());
                            v.s[at] = (char)(v.s[at] ^ (1 << r.below(7)));
                        }
                    }
                    c.strings.push_back(v.s);
                }
                p.vals.push_back(v);
            }
            ps.push_back(p);
        }
    }
    return ps;
}

inline model::MRep repetition(Ctx& c, bool for_ref) {
    model::MRep rep;
    Rng& r = c.r;
    if (!c.cfg.reps || !r.chance(for_ref ? 0.45 : 0.25)) return rep;
    int kind = (int)r.below(5);
    switch (kind) {
        case 0:
            rep.type = model::REP_RECT;
            rep.cols = (uint64_t)r.range(1, 5);
            rep.rows = (uint64_t)r.range(1, 5);
            rep.sp = Pt{ongrid(c, -60, 200), ongrid(c, -60, 200)};
            if (r.chance(0.7)) {
                rep.sp.x = llabs(rep.sp.x);
                rep.sp.y = llabs(rep.sp.y);
            }
            break;
        case 1:
            rep.type = model::REP_REGULAR;
            rep.cols = (uint64_t)r.range(1, 5);
            rep.rows = (uint64_t)r.range(1, 5);
            rep.v1 = Pt{ongrid(c, -100, 200), ongrid(c, -100, 100)};
            rep.v2 = Pt{ongrid(c, -100, 100), ongrid(c, -100, 200)};
            if (r.chance(0.4)) {  // orthogonal axis-parallel lattice (AREF-eligible at 0/90/180/270)
                rep.v1.y = 0;
                rep.v2.x = 0;
            } else if (r.chance(0.3)) {  // orthogonal 45 degree lattice
                dg_t a = ongrid(c, 1, 80), b = ongrid(c, 1, 80);
                rep.v1 = Pt{a, a};
                rep.v2 = Pt{-b, b};
            }
            break;
    }
    if ((rep.type == model::REP_RECT || rep.type == model::REP_REGULAR) && r.chance(0.02) && !c.cfg.compact) {
        // counts at the limits of one- and two-byte fields (GDSII COLROW is a signed 16-bit pair)
        static const uint64_t big[] = {127, 128, 255, 256, 1000, 32767, 32768, 40000, 65535};
        uint64_t n = big[r.below(for_ref ? 9 : 4)];
        uint64_t other = r.chance(0.8) ? 1 : 2;
        if (r.chance(0.5)) {
            rep.cols = n;
            rep.rows = other;
        } else {
            rep.rows = n;
            rep.cols = other;
        }
        return rep;
    }
    if (rep.type != model::REP_NONE) return rep;
    switch (kind) {
        case 2: {
            rep.type = model::REP_EXPLICIT;
            int n = (int)r.range(1, 6);
            if (for_ref && !c.cfg.compact && r.chance(0.004)) n = r.chance(0.5) ? 20000 : 40000;  // counts beyond 15 and 16 bits
            // OASIS stores an explicit repetition as rounded values of its own (no sum with the element's
            // position is ever rounded), so off-grid offsets are well defined there: each one rounded
            bool off = c.cfg.mode == canon::OAS && c.offgrid && r.chance(0.5);
            for (int i = 0; i < n; i++)
                rep.offs.push_back(Pt{ongrid(c, -300, 300) + (off ? frac(c) : 0), ongrid(c, -300, 300) + (off ? frac(c) : 0)});
        } break;
        default: {
            rep.type = r.chance(0.5) ? model::REP_EX : model::REP_EY;
            int n = (int)r.range(1, 6);
            bool neg = c.cfg.neg_explicit && r.chance(0.3);
            bool off = c.cfg.mode == canon::OAS && c.offgrid && r.chance(0.5);
            for (int i = 0; i < n; i++) rep.coords.push_back(ongrid(c, neg ? -300 : 1, 300) + (off ? frac(c) : 0));
            if (!c.cfg.compact && r.chance(0.04)) {
                // long lists in the orders that are hard on a sorting routine (the writer sorts the coordinates and
                // stores differences): ascending with the smallest value last, the largest first, descending
                static const int lens[] = {17, 60, 118, 120, 127, 128, 200, 344, 350, 430, 600};
                int m = lens[r.below(11)];
                std::vector<dg_t> v;
                dg_t x = ongrid(c, 1, 20);
                for (int i = 0; i < m; i++) {
                    v.push_back(x);
                    x += ongrid(c, 1, 9);
                }
                switch (r.below(4)) {
                    case 0: std::rotate(v.begin(), v.begin() + 1, v.end()); break;            // smallest last
                    case 1: std::rotate(v.begin(), v.end() - 1, v.end()); break;              // largest first
                    case 2: std::reverse(v.begin(), v.end()); break;                          // descending
                    default:
                        for (size_t i = v.size(); i > 1; i--) std::swap(v[i - 1], v[r.below(i)]);
                }
                rep.coords = v;
            }
        }
    }
    return rep;
}

inline model::MPoly polygon(Ctx& c, bool allow_big) {
    model::MPoly p;
    Rng& r = c.r;
    p.layer = tagval(c);
    p.dtype = tagval(c);
    int kind = (int)r.below(allow_big ? 11 : 10);
    switch (kind) {
        case 0:
        case 1: {  // rectangle / square
            dg_t w = ongrid(c, 1, 200) + frac(c), h = r.chance(0.3) ? w : ongrid(c, 1, 200) + frac(c);
            if (c.span >= 50000000 && r.chance(0.4)) {
                // as wide or as tall as the layout (beyond 32 bits of grid steps where the format allows it)
                bool square = w == h;
                dg_t big = ongrid(c, c.span / 4, c.span - 1) + frac(c);
                if (r.chance(0.2)) big = (((dg_t)1 << (c.span > ((dg_t)1 << 33) ? 32 : 29)) + r.range(-1, 1)) * 10;
                if (square) w = h = big;
                else if (r.chance(0.5)) w = big;
                else h = big;
            }
            p.pts = rect_pts(point(c), w, h);
        } break;
        case 2:
        case 3:
            if (r.chance(0.2)) {
                p.pts = ctrap_triangle(c);
                if (r.chance(0.35)) {
                    // a near miss: one vertex slid along x or y inside the triangle's box, so that most of what makes
                    // it a compact trapezoid (box ratio, apex on the centre line) still holds and one thing does not
                    dg_t x0 = p.pts[0].x, x1 = x0, y0 = p.pts[0].y, y1 = y0;
                    for (auto& q : p.pts) {
                        x0 = std::min(x0, q.x);
                        x1 = std::max(x1, q.x);
                        y0 = std::min(y0, q.y);
                        y1 = std::max(y1, q.y);
                    }
                    std::vector<Pt> was = p.pts;
                    Pt& q = p.pts[r.below(3)];
                    if (r.chance(0.5))
                        q.x = r.range(x0 / 10, x1 / 10) * 10;
                    else
                        q.y = r.range(y0 / 10, y1 / 10) * 10;
                    if (orient(p.pts[0], p.pts[1], p.pts[2]) == 0) p.pts = was;  // keep an area
                }
            } else {
                p.pts = trapezoid(c);
            }
            break;
        case 4: p.pts = staircase(c, (int)r.range(1, std::max(1, c.cfg.max_vertices / 2 - 1))); break;
        case 5: {  // circle candidate
            int n = (int)r.range(12, std::max(12, std::min(96, c.cfg.max_vertices * 2)));
            double rad = (double)r.range(20, 400);
            Pt ctr = point(c);
            for (int i = 0; i < n; i++) {
                dg_t x = ctr.x + (dg_t)llround(rad * 10 * cos(2 * M_PI * i / n));
                dg_t y = ctr.y + (dg_t)llround(rad * 10 * sin(2 * M_PI * i / n));
                if (c.cfg.force_ongrid) {
                    x = canon::rgrid(x) * 10;
                    y = canon::rgrid(y) * 10;
                }
                if (llabs(x % 10) == 5) x += 1;
                if (llabs(y % 10) == 5) y += 1;
                p.pts.push_back(Pt{x, y});
            }
            p.hint = 1;
            p.ccenter = ctr;
            p.cradius = (dg_t)(rad * 10);
            if (r.chance(0.3)) {
                // near-circles that are not circles: every vertex test of a circle detector but one still passes
                auto detie = [](dg_t v) { return llabs(v % 10) == 5 ? v + 1 : v; };
                switch (r.below(3)) {
                    case 0: {  // an arc closed by its chord: all vertices on the circle, one long edge
                        size_t keep = (size_t)n * (size_t)r.range(55, 95) / 100;
                        if (keep < 8) keep = 8;
                        if (keep < p.pts.size()) p.pts.resize(keep);
                    } break;
                    case 1: {  // one vertex off the circle
                        size_t k = r.below(p.pts.size());
                        double f = 1.0 + (double)r.range(2, 30) * (r.chance(0.5) ? 1.0 : -1.0) / rad;
                        p.pts[k] = Pt{detie(ctr.x + (dg_t)llround((double)(p.pts[k].x - ctr.x) * f)),
                                      detie(ctr.y + (dg_t)llround((double)(p.pts[k].y - ctr.y) * f))};
                        if (c.cfg.force_ongrid) p.pts[k] = Pt{canon::rgrid(p.pts[k].x) * 10, canon::rgrid(p.pts[k].y) * 10};
                    } break;
                    default: {  // a slightly flattened circle
                        static const double es[] = {0.004, 0.02, 0.08};
                        double f = 1.0 - es[r.below(3)];
                        for (auto& q : p.pts) {
                            q.y = detie(ctr.y + (dg_t)llround((double)(q.y - ctr.y) * f));
                            if (c.cfg.force_ongrid) q.y = canon::rgrid(q.y) * 10;
                        }
                    }
                }
                p.hint = 0;
            }
        } break;
        case 10: {  // above the GDSII record limit
            int n = (int)r.range(8191, 8600);
            if (r.chance(0.4)) {  // around the capacity of one XY record and of two
                static const int edge[] = {8189, 8190, 8191, 16379, 16380, 16381};
                n = edge[r.below(6)];
            }
            Pt ctr = Pt{ongrid(c, -1000, 1000), ongrid(c, -1000, 1000)};
            for (int i = 0; i < n; i++) {
                double rad = 40000.0 + 200.0 * ((i * 7919) % 13) / 13.0;
                dg_t x = ctr.x + (dg_t)llround(rad * cos(2 * M_PI * i / n)) * 10;
                dg_t y = ctr.y + (dg_t)llround(rad * sin(2 * M_PI * i / n)) * 10;
                p.pts.push_back(Pt{x, y});
            }
        } break;
        default: {
            int n = (int)r.range(3, std::max(3, c.cfg.max_vertices));
            if ((!c.cfg.simple_polys_only || c.cfg.rings) && c.cfg.mode == canon::GDS && r.chance(0.12)) {
                // a ring drawn as one boundary: outer contour, back to its first vertex, inner contour (the
                // first vertex occurs in the middle of the list, where a multi-record XY list may be cut)
                Pt o = point(c);
                o.x = canon::rgrid(o.x) * 10;
                o.y = canon::rgrid(o.y) * 10;
                dg_t w = ongrid(c, 30, 200), h = ongrid(c, 30, 200), t = ongrid(c, 2, 10);
                std::vector<Pt> outer = {o, Pt{o.x + w, o.y}, Pt{o.x + w, o.y + h}, Pt{o.x, o.y + h}};
                std::vector<Pt> inner;
                if (r.chance(0.35)) {
                    // an island inside the hole, all in one boundary: outer contour, seam to the hole, seam from the
                    // hole to the island and back, rest of the hole.  Under a vertex limit the cuts are taken at
                    // quantiles of the vertex coordinates along the longer side: with some hundreds of extra vertices
                    // along the bottom edge a limit of 199 cuts once or twice, mostly away from the hole, and one
                    // piece keeps all three levels
                    bool many = r.chance(0.6);
                    int64_t lim = c.cfg.vertex_limit >= 100 && c.cfg.vertex_limit <= 1000 ? (int64_t)c.cfg.vertex_limit : 199;
                    w = many ? ongrid(c, 2 * lim + 60, 2 * lim + 500) : ongrid(c, 80, 300);
                    h = ongrid(c, 30, 70);
                    dg_t u = ongrid(c, 1, 5);
                    dg_t hx = 10 * r.range(1, w / 10 - 3 * u / 10 - 1), hy = 10 * r.range(1, h / 10 - 3 * u / 10 - 1);
                    // the contour starts on the left side at the height of the hole: the seam runs along a grid line
                    Pt sp{o.x, o.y + hy};
                    outer = {sp, o};
                    int extra = many ? (int)r.range(lim - 10, 2 * lim + 20) : (int)r.range(0, 40);
                    std::set<dg_t> xs;
                    for (int k = 0; k < extra; k++) xs.insert(10 * r.range(1, w / 10 - 1));
                    for (dg_t x : xs) outer.push_back(Pt{o.x + x, o.y});
                    outer.push_back(Pt{o.x + w, o.y});
                    outer.push_back(Pt{o.x + w, o.y + h});
                    outer.push_back(Pt{o.x, o.y + h});
                    o = sp;
                    Pt h0{sp.x + hx, sp.y};
                    // (both seams run along grid lines: every edge is axis-parallel and the region comparison is exact)
                    Pt i0{h0.x + u, h0.y + u};
                    Pt m0{h0.x, h0.y + u};  // on the left edge of the hole, where the seam to the island leaves it
                    p.pts = outer;
                    p.pts.push_back(o);
                    p.pts.push_back(h0);
                    p.pts.push_back(m0);
                    p.pts.push_back(i0);
                    p.pts.push_back(Pt{i0.x + u, i0.y});
                    p.pts.push_back(Pt{i0.x + u, i0.y + u});
                    p.pts.push_back(Pt{i0.x, i0.y + u});
                    p.pts.push_back(i0);
                    p.pts.push_back(m0);
                    p.pts.push_back(Pt{h0.x, h0.y + 3 * u});
                    p.pts.push_back(Pt{h0.x + 3 * u, h0.y + 3 * u});
                    p.pts.push_back(Pt{h0.x + 3 * u, h0.y});
                    p.pts.push_back(h0);
                    p.rep = repetition(c, false);
                    p.props = props(c, true);
                    return p;
                }
                if (r.chance(0.5)) {
                    // plain variant: small hole next to the first corner
                    if (r.chance(0.3)) outer.erase(outer.begin() + 2);                          // triangle
                    else if (r.chance(0.3)) outer.insert(outer.begin() + 2, Pt{o.x + w + t, o.y + h / 20 * 10});  // pentagon
                    inner = {Pt{o.x + t, o.y + t}, Pt{o.x + t, o.y + 2 * t}, Pt{o.x + 2 * t, o.y + 2 * t}, Pt{o.x + 2 * t, o.y + t}};
                } else {
                    // many vertices along the sides and a small hole anywhere inside: under a vertex limit
                    // the hole tends to end up strictly inside one of the pieces
                    std::vector<Pt> dense;
                    int per_side = (int)r.range(0, 6);
                    for (int side = 0; side < 4; side++) {
                        Pt a = outer[side], b = outer[(side + 1) % 4];
                        dense.push_back(a);
                        dg_t len = (llabs(b.x - a.x) + llabs(b.y - a.y)) / 10;
                        std::set<dg_t> cuts;
                        for (int k = 0; k < per_side; k++) cuts.insert(r.range(1, len - 1));
                        std::vector<dg_t> cs(cuts.begin(), cuts.end());
                        for (dg_t d : cs) dense.push_back(Pt{a.x + (b.x - a.x) / len * d, a.y + (b.y - a.y) / len * d});
                    }
                    outer = dense;
                    dg_t s2 = ongrid(c, 1, 6);
                    dg_t hx = o.x + 10 * r.range(1, (w - s2) / 10 - 1), hy = o.y + 10 * r.range(1, (h - s2) / 10 - 1);
                    inner = {Pt{hx, hy}, Pt{hx, hy + s2}, Pt{hx + s2, hy + s2}, Pt{hx + s2, hy}};
                    if (r.chance(0.7)) {
                        // seam along a grid line: from a point of the left side straight to the hole (a slanted
                        // seam is cut by the slicing lines at off-grid points and opens into a slit)
                        Pt sp{o.x, hy};
                        std::vector<Pt> left;  // the left side runs from (o.x, o.y+h) down to o: after the last corner
                        size_t corner = 0;
                        for (size_t k = 0; k < outer.size(); k++)
                            if (outer[k].x == o.x && outer[k].y == o.y + h) corner = k;
                        std::vector<Pt> rot;
                        bool placed = false;
                        for (size_t k = corner + 1; k < outer.size(); k++) {
                            if (outer[k].y == hy) placed = true;
                            if (!placed && outer[k].y < hy) {
                                outer.insert(outer.begin() + (long)k, sp);
                                placed = true;
                                break;
                            }
                        }
                        if (!placed) outer.push_back(sp);
                        size_t at = 0;
                        for (size_t k = 0; k < outer.size(); k++)
                            if (outer[k].x == sp.x && outer[k].y == sp.y) at = k;
                        std::rotate(outer.begin(), outer.begin() + (long)at, outer.end());
                        o = sp;  // the contour starts and ends at the seam point
                    }
                }
                p.pts = outer;
                p.pts.push_back(o);
                for (auto& q : inner) p.pts.push_back(q);
                p.pts.push_back(inner[0]);
                p.rep = repetition(c, false);
                p.props = props(c, true);
                return p;
            }
            if (c.cfg.simple_polys_only || r.chance(0.8)) {
                double R = (double)r.range(25, 600);
                p.pts = star_polygon(c, std::min(n, 60), point(c), R * 0.5, R);
            } else {
                for (int i = 0; i < n; i++) p.pts.push_back(point(c));
            }
        }
    }
    if ((kind <= 1 || kind == 4) && r.chance(0.15)) {
        // one redundant vertex in the middle of an axis-parallel edge (legal, and kept by both formats); the
        // start vertex is rotated below, so it is sometimes the first or the last one of the list
        size_t n = p.pts.size();
        size_t i = r.below(n);
        Pt a = p.pts[i], b = p.pts[(i + 1) % n];
        dg_t len = llabs(b.x - a.x) + llabs(b.y - a.y);
        if ((a.x == b.x || a.y == b.y) && len >= 20) {
            dg_t d = 10 * r.range(1, len / 10 - 1);
            Pt q = a.x == b.x ? Pt{a.x, a.y + (b.y > a.y ? d : -d)} : Pt{a.x + (b.x > a.x ? d : -d), a.y};
            p.pts.insert(p.pts.begin() + (long)i + 1, q);
        }
    }
    if (kind != 10) shuffle_cycle(r, p.pts);
    if (c.cfg.simple_polys_only && kind != 10 && !is_simple(p.pts)) {
        p.pts = rect_pts(point(c), ongrid(c, 1, 50), ongrid(c, 1, 50));
        p.hint = 0;
    }
    if (kind != 10) p.rep = repetition(c, false);
    p.props = props(c, true);
    return p;
}

enum { END_FLUSH_ = 0, END_ROUND_ = 1, END_HALF_ = 2, END_EXT_ = 3, END_SMOOTH_ = 4 };

inline model::MPath path(Ctx& c) {
    model::MPath p;
    Rng& r = c.r;
    p.layer = tagval(c);
    p.dtype = tagval(c);
    int n = (int)r.range(2, 7);
    Pt cur = point(c);
    p.spine.push_back(cur);
    bool manhattan = r.chance(0.5);
    bool horiz = r.chance(0.5);
    for (int i = 1; i < n; i++) {
        dg_t dx = ongrid(c, 3, 150) * (r.chance(0.5) ? 1 : -1);
        dg_t dy = ongrid(c, 3, 150) * (r.chance(0.5) ? 1 : -1);
        if (manhattan) {
            if (horiz)
                dy = 0;
            else
                dx = 0;
            horiz = !horiz;
        }
        cur = Pt{cur.x + dx, cur.y + dy};
        p.spine.push_back(cur);
    }
    if (c.cfg.close_vertices && r.chance(0.1)) {
        Pt last = p.spine.back();
        bool diag = r.chance(0.5);
        p.spine.push_back(Pt{canon::rgrid(last.x) * 10 + (diag ? 10 : 0), canon::rgrid(last.y) * 10 + 10});
        // a diagonal last step (or an off-grid vertex before it) takes the path out of the axis-parallel class
        if (diag || canon::rgrid(last.x) * 10 != last.x) manhattan = false;
    }
    p.hw = r.chance(0.05) ? 0 : ongrid(c, 1, 40) / (r.chance(0.2) ? 2 : 1) + frac(c);
    if (p.hw < 0) p.hw = -p.hw;
    bool oas = c.cfg.mode == canon::OAS;
    switch (r.below(oas ? 3 : 4)) {
        case 0: p.end = model::END_FLUSH; break;
        case 1: p.end = model::END_HALF; break;
        case 2:
            p.end = model::END_EXT;
            p.eu = ongrid(c, r.chance(0.15) ? -20 : 0, 60) + frac(c);
            p.ev = ongrid(c, r.chance(0.15) ? -20 : 0, 60) + frac(c);
            if (r.chance(0.1)) p.eu = canon::rgrid(p.hw) * 10;
            if (r.chance(0.1)) p.ev = 0;
            if (r.chance(0.1)) p.eu = 0;
            break;
        default: p.end = model::END_ROUND;
    }
    p.scale_width = oas ? true : r.chance(0.75);
    p.rep = repetition(c, false);
    p.props = props(c, true);
    if (c.cfg.multi_element_simple_paths && r.chance(0.05)) {
        // one element whose offset from the spine changes along the way (a straight axis-parallel spine of four
        // to seven vertices: the centre line written is the spine displaced sideways, exactly)
        Pt a = Pt{canon::rgrid(p.spine[0].x) * 10, canon::rgrid(p.spine[0].y) * 10};
        int n = (int)r.range(4, 7);
        bool horiz2 = r.chance(0.5);
        dg_t sgn = r.chance(0.5) ? 1 : -1;
        p.spine.clear();
        p.voffs.clear();
        dg_t off = r.chance(0.5) ? 0 : 2 * ongrid(c, -20, 20);
        int change_from = (int)r.range(1, n - 1);
        for (int i = 0; i < n; i++) {
            p.spine.push_back(a);
            if (i >= change_from && r.chance(0.7)) off = 2 * ongrid(c, -20, 20);
            p.voffs.push_back(off);
            dg_t step = ongrid(c, 60, 300) * sgn;
            a = horiz2 ? Pt{a.x + step, a.y} : Pt{a.x, a.y + step};
        }
        return p;
    }
    if (c.cfg.multi_element_simple_paths && r.chance(0.08)) {
        // a straight axis-parallel centre line with two or three parallel elements: every element is a PATH
        // record of its own, displaced sideways by an exact amount
        Pt a = p.spine[0];
        dg_t len = ongrid(c, 5, 300);
        p.spine = r.chance(0.5) ? std::vector<Pt>{a, Pt{a.x + len, a.y}} : std::vector<Pt>{a, Pt{a.x, a.y - len}};
        p.nelem = (int)r.range(2, 3);
        p.sep = 2 * ongrid(c, 1, 40);
        if (r.chance(0.35)) {
            // an L with circular bends: the outer element gets a longer arc (more vertices) than the inner one;
            // the expected centre lines are the writer's own (element_center), as for RobustPaths
            // radii in even numbers of grid steps: an arc sample at 60 degrees sits at radius / 2 from the
            // centre, and half a grid step would be a rounding tie
            p.bend = 20 * r.range(5, 20);
            p.sep = 40 * r.range(1, 10);
            dg_t leg = p.bend + p.sep * p.nelem + ongrid(c, 20, 200);
            a = Pt{canon::rgrid(a.x) * 10, canon::rgrid(a.y) * 10};
            dg_t sx = r.chance(0.5) ? 1 : -1, sy = r.chance(0.5) ? 1 : -1;
            p.spine = {a, Pt{a.x + sx * leg, a.y}, Pt{a.x + sx * leg, a.y + sy * leg}};
        }
        return p;
    }
    // (not in layouts beyond 2^31 grid steps: RobustPath's numerical solver runs out of digits there and its outline
    // comes out with NaN vertices, which crash the convex hull behind a bounding box - finding F32, recorded with a
    // replay of its own and kept out of the generator so that nothing else can hide behind it)
    if (c.cfg.robust_paths && manhattan && c.span <= ((dg_t)1 << 31) && r.chance(0.4)) {
        // the writer samples a RobustPath's centre line at interior points: only on axis-parallel
        // segments do those samples stay exactly on the line after rounding
        p.impl = 1;
        for (auto& q : p.spine) {
            q.x = canon::rgrid(q.x) * 10;
            q.y = canon::rgrid(q.y) * 10;
        }
    }
    if (c.cfg.nonsimple_paths && r.chance(0.2)) {
        // written as polygons: keep the outline free of self-crossings (x-monotone spine, long segments)
        p.simple = false;
        p.impl = r.chance(0.3) ? 1 : 0;
        p.nelem = (int)r.range(1, 3);
        p.hw = ongrid(c, 2, 20);
        // an even number of grid steps: two elements sit at +-sep/2, and an outline coordinate exactly half
        // a grid step off the grid would be a rounding tie (decided by floating-point noise, not by the writer)
        p.sep = p.nelem > 1 ? 2 * p.hw + 2 * ongrid(c, 1, 15) : 0;
        p.join = (int)r.below(4);
        if (p.impl == 0 && r.chance(0.3)) p.taper = ongrid(c, 1, 30);
        if (p.impl == 0 && r.chance(0.3)) p.bend = ongrid(c, 10, 60);
        static const int ends[] = {END_FLUSH_, END_ROUND_, END_HALF_, END_EXT_, END_SMOOTH_};
        p.end = ends[r.below(p.impl ? 4 : 5)];
        p.eu = ongrid(c, 0, 40);
        p.ev = ongrid(c, 0, 40);
        Pt cur2 = p.spine[0];
        dg_t reach = (p.hw + p.sep * p.nelem) * 6 + 100;
        p.spine.resize(1);
        int n2 = (int)r.range(2, 5);
        for (int i = 1; i < n2; i++) {
            cur2 = Pt{cur2.x + reach + ongrid(c, 0, 100), cur2.y + ongrid(c, -40, 40) * (reach / 400 + 1)};
            p.spine.push_back(cur2);
        }
    }
    if (p.simple && p.impl == 0 && p.nelem == 1 && p.bend == 0 && r.chance(0.05)) {
        // a path with a coarse tolerance of its own and a densely sampled stretch: the writer leaves out every
        // vertex closer than the tolerance to the last one it kept
        static const double tols[] = {1.05, 2.05, 5.05, 10.05};
        std::vector<Pt> was = p.spine;
        p.tol_steps = tols[r.below(4)];
        dg_t t = (dg_t)(p.tol_steps * 10);
        size_t at = r.below(p.spine.size());
        int m = (int)r.range(2, 6);
        std::vector<Pt> run;
        Pt cur2 = p.spine[at];
        for (int i = 0; i < m; i++) {
            // steps of 0.3 to 0.9 tolerances, turning left and right
            dg_t len = std::max<dg_t>(1, t * r.range(30, 90) / 100);
            dg_t dx = (i & 1) ? 0 : len, dy = (i & 1) ? len : 0;
            if (r.chance(0.3)) std::swap(dx, dy);
            if (r.chance(0.3)) dx = -dx;
            cur2 = Pt{cur2.x + dx, cur2.y + dy};
            run.push_back(cur2);
        }
        p.spine.insert(p.spine.begin() + (long)at + 1, run.begin(), run.end());
        if (model::centre_line(p).size() < 2) {
            p.spine = was;
            p.tol_steps = 0;
        }
    }
    return p;
}

inline model::MLabel label(Ctx& c) {
    model::MLabel l;
    Rng& r = c.r;
    l.text = text(r, 1, 16, true);
    if (c.cfg.mode == canon::OAS && r.chance(0.03)) l.text = "";  // an a-string may be empty
    if (c.cfg.long_strings && r.chance(0.03)) l.text = r.chance(0.3) ? text(r, 126, 129, true) : text(r, 300, 3000, true);  // 127/128: one- vs two-byte length
    if (c.cfg.long_strings && c.cfg.mode == canon::GDS && r.chance(0.01)) {
        // as long as one GDSII record can hold ("strings fit one record, < 65530 bytes")
        int n = (int)r.range(65500, 65529);
        l.text = text(r, n, n, true);
    }
    l.layer = tagval(c);
    l.ttype = tagval(c);
    l.origin = point(c);
    static const int anchors[] = {0, 1, 2, 4, 5, 6, 8, 9, 10};
    if (c.cfg.mode == canon::GDS) {
        l.anchor = anchors[r.below(9)];
        if (r.chance(0.4)) {
            static const double rots[] = {90, 180, 270, -90, 45, 30.5, 0.001, 359.999, 123.456, 256, -256, 16};
            l.rot_deg = rots[r.below(12)];
        }
        if (r.chance(0.3)) {
            // (powers of 16 sit on the exponent boundaries of the 8-byte real)
            static const double mags[] = {2, 0.5, 0.25, 1.5, 10, 0.001, 3.125, 16, 256, 4096, 65536, 0.0625, 1.0 / 4096, 1.0 / 65536};
            l.mag = mags[r.below(14)];
            // the ends of the exponent range of the 8-byte real (a label only stores its magnification)
            if (r.chance(0.1)) {
                static const double ends[] = {0x1p-160, 0x1p140, 0x1p-260, 0x1p251, 0x1.8p-200, 0x1.fffffffffffffp251};
                l.mag = ends[r.below(6)];
            }
        }
        l.xrefl = r.chance(0.2);
    } else {
        l.anchor = 8;  // what read_oas installs (SW)
    }
    l.rep = repetition(c, false);
    l.props = props(c, true);
    return l;
}

inline model::MRef reference(Ctx& c, const std::string& target, bool by_name) {
    model::MRef m;
    Rng& r = c.r;
    m.target = target;
    m.how = by_name ? 1 : 0;
    m.origin = point(c);
    if (r.chance(0.5)) {
        static const double rots[] = {90, 180, 270, -90, 45, 30, 0.5, 135, 200.25, 359.5, -45, 256, -256, 16};
        m.rot_deg = rots[r.below(r.chance(0.6) ? 4 : 14)];
    }
    if (r.chance(0.3)) {
        static const double mags[] = {2, 0.5, 0.25, 1.5, 10, 3.125, 0.1, 16, 256, 4096, 0.0625, 1.0 / 4096, 1.0 / 65536};
        m.mag = mags[r.below(13)];
    }
    m.xrefl = r.chance(0.3);
    m.rep = repetition(c, true);
    bool huge = (m.rep.type == model::REP_RECT || m.rep.type == model::REP_REGULAR) && m.rep.cols * m.rep.rows > 2000;
    if (huge && c.cfg.mode == canon::GDS) {
        // written as an AREF only when the lattice follows the rotated axes; as 65535 SREFs it is only bulk
        static const double q90[] = {0, 90, 180, 270};
        m.rot_deg = q90[r.below(4)];
        if (m.rep.type == model::REP_RECT) {
            m.rep.type = model::REP_REGULAR;
            m.rep.v1 = Pt{m.rep.sp.x, 0};
            m.rep.v2 = Pt{0, m.rep.sp.y};
        }
    }
    if (m.rep.type == model::REP_REGULAR && (huge || r.chance(0.5))) {
        // make the lattice follow the rotated axes exactly when that is possible on the grid
        int q = (int)llround(m.rot_deg / 90.0);
        if (fabs(m.rot_deg - 90.0 * q) < 1e-12) {
            dg_t a = llabs(m.rep.v1.x) + 10, b = llabs(m.rep.v2.y) + 10;
            switch (((q % 4) + 4) % 4) {
                case 0: m.rep.v1 = Pt{a, 0}; m.rep.v2 = Pt{0, b}; break;
                case 1: m.rep.v1 = Pt{0, a}; m.rep.v2 = Pt{-b, 0}; break;
                case 2: m.rep.v1 = Pt{-a, 0}; m.rep.v2 = Pt{0, -b}; break;
                default: m.rep.v1 = Pt{0, -a}; m.rep.v2 = Pt{b, 0};
            }
        }
    }
    if (c.span >= 1000000000 && (m.rep.type == model::REP_RECT || m.rep.type == model::REP_REGULAR) && r.chance(0.6)) {
        // an array wider than 2^31 grid steps whose stored coordinates (origin, far corners, every instance)
        // are all 32-bit values: differences of legal coordinates need not fit in 32 bits
        const dg_t LIM = 2147480000;
        bool rect = m.rep.type == model::REP_RECT;
        Pt v1 = rect ? Pt{m.rep.sp.x, 0} : m.rep.v1;
        Pt v2 = rect ? Pt{0, m.rep.sp.y} : m.rep.v2;
        bool along_x = v1.y == 0 && v2.x == 0 && v1.x != 0, along_y = v1.x == 0 && v2.y == 0 && v1.y != 0;
        if ((along_x || along_y) && m.rep.cols >= 2) {
            dg_t total = r.range(2200000000LL, 3600000000LL);
            dg_t pitch = total / (dg_t)m.rep.cols;
            dg_t sign = (along_x ? v1.x : v1.y) > 0 ? 1 : -1;
            dg_t room = 2 * LIM - pitch * (dg_t)m.rep.cols;
            dg_t o = sign > 0 ? -LIM + r.range(0, room) : LIM - r.range(0, room);
            if (along_x) {
                v1.x = sign * pitch * 10;
                m.origin.x = o * 10;
            } else {
                v1.y = sign * pitch * 10;
                m.origin.y = o * 10;
            }
            if (rect)
                m.rep.sp.x = v1.x;
            else
                m.rep.v1 = v1;
        }
    }
    if (m.rep.type == model::REP_REGULAR && !huge && c.span < 1000000000 && r.chance(0.08)) {
        // a lattice that is almost, but not quite, along the axes: a long pitch with an off-axis component of a
        // few grid steps (a writer that decides "is this an AREF" by an angle must not lose that component)
        dg_t big = ongrid(c, 20000, 1000000), small = ongrid(c, 1, 10) * (r.chance(0.5) ? 1 : -1);
        dg_t other = ongrid(c, 10, 300);
        if (r.chance(0.5)) {
            m.rep.v1 = Pt{big, small};
            m.rep.v2 = Pt{r.chance(0.5) ? 0 : -small / 10 * 10, other};
        } else {
            m.rep.v1 = Pt{other, r.chance(0.5) ? 0 : small};
            m.rep.v2 = Pt{small, big};
        }
        if (r.chance(0.6)) {
            m.rot_deg = 0;
            m.xrefl = false;
        }
    }
    m.props = props(c, true);
    return m;
}

inline model::MLib library(Rng& r, const Cfg& cfg) {
    model::MLib m;
    Ctx c{r, cfg, r.chance(0.5), 2000};
    if (cfg.force_ongrid) c.offgrid = false;
    if (r.chance(0.15)) c.span = 200000;
    if (r.chance(0.05)) c.span = 50000000;
    if (cfg.mode == canon::GDS && r.chance(0.04)) c.span = 1000000000;  // near the 32-bit limit of the format
    if (cfg.mode == canon::OAS && r.chance(0.04)) c.span = (dg_t)1 << 38;  // OASIS integers are not limited to 32 bits
    m.name = r.chance(0.5) ? "LIB" : ident(r, 1, 14);
    if (r.chance(0.08)) {
        // any printable character may stand in a library name: conversion specifications, quotes, a backslash
        static const char* const odd[] = {"%s", "%n", "100%scaled", "%d%s%s", "\\n", "\"q\"", "a b", "%%", "%5$s"};
        m.name += odd[r.below(9)];
    }
    if (cfg.long_strings && r.chance(0.15)) {
        // library names as long as a record allows (GDSII only stores them; OASIS has no library name)
        static const int lens[] = {127, 128, 255, 256, 1019, 1020, 1021, 1022, 4095, 4096, 32767, 32768, 65529, 65530};
        int n = r.chance(0.5) ? lens[r.below(14)] : (int)r.range(15, 3000);
        m.name = ident(r, n, n);
    }
    static const double units[] = {1e-6, 1e-6, 1e-6, 1e-3, 1e-9, 2e-6, 1.0, 2.54e-5};
    static const double ratios[] = {1000, 1000, 100, 10, 2000, 10000, 1, 400, 4096, 256, 65536, 16};
    m.unit = units[r.below(8)];
    m.precision = m.unit / ratios[r.below(r.chance(0.85) ? 8 : 12)];
    int ncell = (int)r.range(1, cfg.max_cells);
    if (r.chance(0.02)) ncell = 0;  // an empty library is a library too
    // many small cells: reference numbers, name tables and cell arrays beyond 127 entries
    bool many = r.chance(0.007) && !cfg.compact;
    if (many) ncell = (int)r.range(130, 200);
    std::set<std::string> names;
    for (int i = 0; i < ncell; i++) {
        std::string n;
        do {
            n = ident(r, 1, r.chance(0.1) ? 32 : 9);
            if (r.chance(0.01)) n = ident(r, 126, 140);  // a name whose length needs two bytes in OASIS
        } while (!names.insert(n).second);
        model::MCell cell;
        cell.name = n;
        m.cells.push_back(cell);
    }
    if (cfg.dangling && r.chance(0.4)) {
        int k = (int)r.range(1, 2);
        for (int i = 0; i < k; i++) {
            std::string n;
            do {
                n = "X" + ident(r, 1, 8);
            } while (!names.insert(n).second);
            m.ext_cells.push_back(n);
        }
    }
    bool big_done = false, big_path_done = false;
    for (int i = 0; i < ncell; i++) {
        model::MCell& cell = m.cells[i];
        // swarm: each cell draws its own element mix
        int np = r.chance(0.8) ? (int)r.range(0, cfg.max_elems) : 0;
        int nw = r.chance(0.6) ? (int)r.range(0, cfg.max_elems / 2) : 0;
        int nl = r.chance(0.5) ? (int)r.range(0, cfg.max_elems / 2) : 0;
        int nr = (i + 1 < ncell || !m.ext_cells.empty()) && r.chance(0.7) ? (int)r.range(0, cfg.max_elems / 2) : 0;
        if (many) {
            np = (int)r.range(0, 1);
            nw = r.chance(0.2) ? 1 : 0;
            nl = 1;  // distinct texts: a text-string table beyond 127 entries
            nr = (i + 1 < ncell || !m.ext_cells.empty()) ? (int)r.range(0, 2) : 0;
        }
        for (int k = 0; k < np; k++) {
            bool big = cfg.big_polygons && !big_done && r.chance(0.1);
            cell.polys.push_back(polygon(c, big));
            if (cell.polys.back().pts.size() >= 8000) big_done = true;
        }
        for (int k = 0; k < nw; k++) {
            cell.paths.push_back(path(c));
            // some paths reach their size through the library's own scale(): RobustPath keeps the factor as hidden
            // state (width and offset scales, a transform) that every writer has to apply
            model::MPath& pp = cell.paths.back();
            if (pp.bend == 0 && r.chance(0.12)) {
                static const double ks[] = {2, 4, 0.5, 0.25};
                pp.prescale = ks[r.below(4)];
            }
        }
        if (cfg.big_polygons && !big_path_done && r.chance(0.05)) {
            // a simple path above the 8190-point limit of one XY record
            big_path_done = true;
            model::MPath p;
            p.layer = tagval(c);
            p.dtype = tagval(c);
            int n = (int)r.range(8189, 8400);
            Pt cur = Pt{ongrid(c, -1000, 1000), ongrid(c, -1000, 1000)};
            for (int k = 0; k < n; k++) {
                p.spine.push_back(cur);
                cur = Pt{cur.x + ongrid(c, 2, 6), cur.y + ((k & 1) ? -1 : 1) * ongrid(c, 2, 9)};
            }
            p.hw = ongrid(c, 1, 3);
            p.end = r.chance(0.5) ? model::END_FLUSH : model::END_HALF;
            p.scale_width = true;
            p.props = props(c, true);
            cell.paths.push_back(p);
        }
        for (int k = 0; k < nl; k++) cell.labels.push_back(label(c));
        for (int k = 0; k < nr; k++) {
            bool ext = !m.ext_cells.empty() && (i + 1 >= ncell || r.chance(0.3));
            if (ext) {
                cell.refs.push_back(reference(c, m.ext_cells[r.below(m.ext_cells.size())], r.chance(0.5)));
            } else {
                int t = (int)r.range(i + 1, ncell - 1);
                cell.refs.push_back(reference(c, m.cells[t].name, r.chance(0.3)));
            }
        }
        if (cfg.mode == canon::OAS) cell.props = props(c, false);
    }
    if (cfg.mode == canon::OAS) m.props = props(c, false);
    // sums of two off-grid parts may have produced a last digit of 5: rounding must never be a tie
    auto fix = [](dg_t& v) {
        if (llabs(v % 10) == 5) v += 1;
    };
    for (auto& cell : m.cells) {
        for (auto& p : cell.polys) {
            for (auto& q : p.pts) {
                fix(q.x);
                fix(q.y);
            }
            fix(p.ccenter.x);
            fix(p.ccenter.y);
        }
        for (auto& p : cell.paths) {
            for (auto& q : p.spine) {
                fix(q.x);
                fix(q.y);
            }
            fix(p.hw);
            fix(p.eu);
            fix(p.ev);
        }
        for (auto& l : cell.labels) {
            fix(l.origin.x);
            fix(l.origin.y);
        }
        for (auto& r2 : cell.refs) {
            fix(r2.origin.x);
            fix(r2.origin.y);
        }
    }
    if (cfg.mode == canon::GDS && c.offgrid) {
        // GDSII expands an explicit repetition into plain elements, each at origin + offset rounded as one sum: give
        // labels and references offsets that are off the grid as well (never a tie in the sum), so that rounding the two
        // parts one by one gives another grid point than rounding the sum
        auto loosen = [&](const Pt& origin, model::MRep& rep) {
            if (rep.type == model::REP_NONE || !r.chance(0.5)) return;
            auto detie = [](dg_t base, dg_t& v) {
                if (llabs((base + v) % 10) == 5) v += 1;
            };
            if (rep.type == model::REP_EXPLICIT && rep.offs.size() <= 64) {
                for (auto& o : rep.offs) {
                    o.x += r.range(-4, 4);
                    o.y += r.range(-4, 4);
                    detie(origin.x, o.x);
                    detie(origin.y, o.y);
                }
            } else if ((rep.type == model::REP_EX || rep.type == model::REP_EY) && rep.coords.size() <= 64) {
                for (auto& v : rep.coords) {
                    v += r.range(-4, 4);
                    detie(rep.type == model::REP_EX ? origin.x : origin.y, v);
                }
            }
        };
        for (auto& cell : m.cells) {
            for (auto& l : cell.labels) loosen(l.origin, l.rep);
            for (auto& r2 : cell.refs) loosen(r2.origin, r2.rep);
        }
    }
    return m;
}

}  // namespace gen

#endif
