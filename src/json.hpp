// Minimal JSON value (ordered objects, int64/double split, exact double round trip) for plans and evidence.
#ifndef GDSIM_JSON_HPP
#define GDSIM_JSON_HPP

#include <math.h>
#include <stdint.h>
#include <stdio.h>
#include <stdlib.h>
#include <string.h>

#include <string>
#include <utility>
#include <vector>

struct J {
    enum Kind { Null, Bool, Int, Dbl, Str, Arr, Obj } k = Null;
    bool b = false;
    int64_t i = 0;
    double d = 0;
    std::string s;
    std::vector<J> a;
    std::vector<std::pair<std::string, J>> o;

    J() {}
    J(bool v) : k(Bool), b(v) {}
    J(int v) : k(Int), i(v) {}
    J(int64_t v) : k(Int), i(v) {}
    J(uint32_t v) : k(Int), i(v) {}
    J(uint64_t v) : k(Int), i((int64_t)v) {}
    J(double v) : k(Dbl), d(v) {}
    J(const char* v) : k(Str), s(v) {}
    J(const std::string& v) : k(Str), s(v) {}
    static J arr() {
        J j;
        j.k = Arr;
        return j;
    }
    static J obj() {
        J j;
        j.k = Obj;
        return j;
    }
    static J hex(uint64_t v) {
        char buf[32];
        snprintf(buf, sizeof buf, "0x%016llx", (unsigned long long)v);
        return J(buf);
    }
    uint64_t as_hex() const {
        if (k == Int) return (uint64_t)i;
        return strtoull(s.c_str(), nullptr, 0);
    }
    J& push(const J& v) {
        k = Arr;
        a.push_back(v);
        return a.back();
    }
    J& set(const std::string& key, const J& v) {
        k = Obj;
        for (auto& p : o)
            if (p.first == key) {
                p.second = v;
                return p.second;
            }
        o.emplace_back(key, v);
        return o.back().second;
    }
    const J* get(const std::string& key) const {
        for (auto& p : o)
            if (p.first == key) return &p.second;
        return nullptr;
    }
    bool has(const std::string& key) const { return get(key) != nullptr; }
    const J& at(const std::string& key) const {
        static J null;
        const J* p = get(key);
        return p ? *p : null;
    }
    int64_t geti(const std::string& key, int64_t def = 0) const {
        const J* p = get(key);
        if (!p) return def;
        if (p->k == Int) return p->i;
        if (p->k == Dbl) return (int64_t)p->d;
        if (p->k == Bool) return p->b;
        return def;
    }
    double getd(const std::string& key, double def = 0) const {
        const J* p = get(key);
        if (!p) return def;
        if (p->k == Dbl) return p->d;
        if (p->k == Int) return (double)p->i;
        return def;
    }
    bool getb(const std::string& key, bool def = false) const {
        const J* p = get(key);
        if (!p) return def;
        if (p->k == Bool) return p->b;
        if (p->k == Int) return p->i != 0;
        return def;
    }
    std::string gets(const std::string& key, const std::string& def = "") const {
        const J* p = get(key);
        if (!p || p->k != Str) return def;
        return p->s;
    }
    double num() const { return k == Dbl ? d : (double)i; }

    static void esc(const std::string& s, std::string& out) {
        out += '"';
        for (unsigned char c : s) {
            switch (c) {
                case '"': out += "\\\""; break;
                case '\\': out += "\\\\"; break;
                case '\n': out += "\\n"; break;
                case '\r': out += "\\r"; break;
                case '\t': out += "\\t"; break;
                default:
                    if (c < 0x20 || c >= 0x7f) {
                        char b[8];
                        snprintf(b, sizeof b, "\\u%04x", c);
                        out += b;
                    } else
                        out += (char)c;
            }
        }
        out += '"';
    }
    void dump(std::string& out, int indent = -1, int depth = 0) const {
        switch (k) {
            case Null: out += "null"; break;
            case Bool: out += b ? "true" : "false"; break;
            case Int: out += std::to_string(i); break;
            case Dbl: {
                if (!isfinite(d)) {
                    out += "null";
                    break;
                }
                char buf[40];
                snprintf(buf, sizeof buf, "%.17g", d);
                if (!strpbrk(buf, ".eEn")) strcat(buf, ".0");
                out += buf;
            } break;
            case Str: esc(s, out); break;
            case Arr: {
                out += '[';
                bool simple = true;
                for (auto& v : a)
                    if (v.k == Arr || v.k == Obj) simple = false;
                for (size_t n = 0; n < a.size(); n++) {
                    if (n) out += ',';
                    if (indent >= 0 && !simple) nl(out, indent, depth + 1);
                    a[n].dump(out, indent, depth + 1);
                }
                if (indent >= 0 && !simple && !a.empty()) nl(out, indent, depth);
                out += ']';
            } break;
            case Obj: {
                out += '{';
                for (size_t n = 0; n < o.size(); n++) {
                    if (n) out += ',';
                    if (indent >= 0) nl(out, indent, depth + 1);
                    esc(o[n].first, out);
                    out += indent >= 0 ? ": " : ":";
                    o[n].second.dump(out, indent, depth + 1);
                }
                if (indent >= 0 && !o.empty()) nl(out, indent, depth);
                out += '}';
            } break;
        }
    }
    static void nl(std::string& out, int indent, int depth) {
        out += '\n';
        out.append((size_t)(indent * depth), ' ');
    }
    std::string str(int indent = -1) const {
        std::string r;
        dump(r, indent);
        return r;
    }

    // ---- parser
    struct P {
        const char* p;
        const char* e;
        bool ok = true;
        void ws() {
            while (p < e && (*p == ' ' || *p == '\n' || *p == '\t' || *p == '\r')) p++;
        }
        J val() {
            ws();
            J j;
            if (p >= e) {
                ok = false;
                return j;
            }
            char c = *p;
            if (c == '{') {
                p++;
                j.k = Obj;
                ws();
                if (p < e && *p == '}') {
                    p++;
                    return j;
                }
                while (ok) {
                    ws();
                    std::string key = strv();
                    ws();
                    if (p >= e || *p != ':') {
                        ok = false;
                        break;
                    }
                    p++;
                    J v = val();
                    j.o.emplace_back(key, v);
                    ws();
                    if (p < e && *p == ',') {
                        p++;
                        continue;
                    }
                    if (p < e && *p == '}') {
                        p++;
                        break;
                    }
                    ok = false;
                }
            } else if (c == '[') {
                p++;
                j.k = Arr;
                ws();
                if (p < e && *p == ']') {
                    p++;
                    return j;
                }
                while (ok) {
                    j.a.push_back(val());
                    ws();
                    if (p < e && *p == ',') {
                        p++;
                        continue;
                    }
                    if (p < e && *p == ']') {
                        p++;
                        break;
                    }
                    ok = false;
                }
            } else if (c == '"') {
                j.k = Str;
                j.s = strv();
            } else if (c == 't' && e - p >= 4 && !strncmp(p, "true", 4)) {
                p += 4;
                j = J(true);
            } else if (c == 'f' && e - p >= 5 && !strncmp(p, "false", 5)) {
                p += 5;
                j = J(false);
            } else if (c == 'n' && e - p >= 4 && !strncmp(p, "null", 4)) {
                p += 4;
            } else {
                const char* q = p;
                bool isd = false;
                while (q < e && (isdigit((unsigned char)*q) || *q == '-' || *q == '+' || *q == '.' ||
                                 *q == 'e' || *q == 'E')) {
                    if (*q == '.' || *q == 'e' || *q == 'E') isd = true;
                    q++;
                }
                if (q == p) {
                    ok = false;
                    return j;
                }
                std::string t(p, q);
                if (isd) {
                    j = J(strtod(t.c_str(), nullptr));
                } else {
                    j.k = Int;
                    j.i = (int64_t)strtoll(t.c_str(), nullptr, 10);
                }
                p = q;
            }
            return j;
        }
        std::string strv() {
            std::string r;
            if (p >= e || *p != '"') {
                ok = false;
                return r;
            }
            p++;
            while (p < e && *p != '"') {
                if (*p == '\\' && p + 1 < e) {
                    p++;
                    switch (*p) {
                        case 'n': r += '\n'; break;
                        case 'r': r += '\r'; break;
                        case 't': r += '\t'; break;
                        case 'b': r += '\b'; break;
                        case 'f': r += '\f'; break;
                        case 'u': {
                            if (e - p >= 5) {
                                char h[5] = {p[1], p[2], p[3], p[4], 0};
                                unsigned v = (unsigned)strtoul(h, nullptr, 16);
                                r += (char)(v & 0xff);  // only \u00XX is ever produced by dump()
                                p += 4;
                            }
                        } break;
                        default: r += *p;
                    }
                    p++;
                } else {
                    r += *p++;
                }
            }
            if (p < e) p++;
            return r;
        }
    };
    static bool parse(const std::string& text, J& out) {
        P ps{text.data(), text.data() + text.size()};
        out = ps.val();
        return ps.ok;
    }
};

#endif
