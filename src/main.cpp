// gdsim -- deterministic simulation of gdstk's storage path.
//   gdsim explore  --prop C18 --tier 0 --seed N --start a --stride k [--runs n] [--seconds s]
//                  --out summary.json [--hashes file] [--viol-dir dir] [--status file]
//   gdsim replay   <file> [--quiet]          execute one plan in a fresh process, print trace and verdicts
//   gdsim minimise <file> --sig <signature> --out <file> [--budget n]
//   gdsim gen      --prop C18 --tier t --seed N --index i      print the plan
//   gdsim selftest                                            peer codec self checks
#include <errno.h>
#include <signal.h>
#include <stdio.h>
#include <stdlib.h>
#include <string.h>
#include <sys/stat.h>
#include <sys/wait.h>
#include <time.h>
#include <unistd.h>

#include <algorithm>
#include <fstream>
#include <sstream>

#include "exec.hpp"
#include "minimise.hpp"
#include "scen.hpp"
#include "selftest.hpp"

extern "C" __attribute__((used, visibility("default"))) const char* __asan_default_options() {
    return "exitcode=77:detect_leaks=0:allocator_may_return_null=1:detect_stack_use_after_return=0:"
           "print_summary=1:handle_abort=1";
}
extern "C" __attribute__((used, visibility("default"))) const char* __ubsan_default_options() {
    return "print_stacktrace=1:halt_on_error=1:exitcode=77";
}

static double now_s() {
    struct timespec ts;
    clock_gettime(CLOCK_MONOTONIC, &ts);
    return ts.tv_sec + ts.tv_nsec * 1e-9;
}

static bool read_file(const std::string& path, std::string& out) {
    std::ifstream f(path, std::ios::binary);
    if (!f) return false;
    std::stringstream ss;
    ss << f.rdbuf();
    out = ss.str();
    return true;
}

static bool write_file(const std::string& path, const std::string& data) {
    std::ofstream f(path, std::ios::binary | std::ios::trunc);
    if (!f) return false;
    f << data;
    return (bool)f;
}

static const char* arg(int argc, char** argv, const char* name, const char* def) {
    for (int i = 1; i + 1 < argc; i++)
        if (!strcmp(argv[i], name)) return argv[i + 1];
    return def;
}
static bool flag(int argc, char** argv, const char* name) {
    for (int i = 1; i < argc; i++)
        if (!strcmp(argv[i], name)) return true;
    return false;
}

static void on_alarm(int) {
    // a step that spins without touching any seam: report through the exit status
    const char msg[] = "gdsim: watchdog: step exceeded its wall-clock limit\n";
    ssize_t r = write(2, msg, sizeof msg - 1);
    (void)r;
    _exit(79);
}

static J plan_digest(const J& plan) {
    J d = J::obj();
    for (auto& kv : plan.o) {
        if (kv.first == "models") {
            J ms = J::arr();
            for (auto& m : kv.second.a) {
                model::MLib lib = model::lib_from(m);
                J s = J::obj();
                s.set("cells", (int64_t)lib.cells.size());
                uint64_t np = 0, nw = 0, nl = 0, nr = 0;
                for (auto& c : lib.cells) {
                    np += c.polys.size();
                    nw += c.paths.size();
                    nl += c.labels.size();
                    nr += c.refs.size();
                }
                s.set("polygons", np);
                s.set("paths", nw);
                s.set("labels", nl);
                s.set("references", nr);
                s.set("unit", lib.unit);
                s.set("precision", lib.precision);
                ms.push(s);
            }
            d.set("models", ms);
        } else {
            d.set(kv.first, kv.second);
        }
    }
    return d;
}

static J viol_json(const ex::Viol& v) {
    J j = J::obj();
    j.set("signature", v.signature());
    j.set("property", v.prop);
    j.set("op", v.op);
    j.set("clause", v.clause);
    j.set("detail", v.detail);
    j.set("step", v.step);
    j.set("context", v.context);
    return j;
}

static int cmd_explore(int argc, char** argv) {
    std::string prop = arg(argc, argv, "--prop", "C18");
    int tier = atoi(arg(argc, argv, "--tier", "0"));
    uint64_t seed = strtoull(arg(argc, argv, "--seed", "1"), nullptr, 0);
    uint64_t start = strtoull(arg(argc, argv, "--start", "0"), nullptr, 0);
    uint64_t stride = strtoull(arg(argc, argv, "--stride", "1"), nullptr, 0);
    uint64_t max_runs = strtoull(arg(argc, argv, "--runs", "0"), nullptr, 0);
    double seconds = atof(arg(argc, argv, "--seconds", "0"));
    std::string out = arg(argc, argv, "--out", "");
    std::string hashes = arg(argc, argv, "--hashes", "");
    std::string vdir = arg(argc, argv, "--viol-dir", "");
    std::string status = arg(argc, argv, "--status", "");
    int step_limit = atoi(arg(argc, argv, "--step-seconds", "120"));
    if (!status.empty()) ex::status_init(status.c_str());
    signal(SIGALRM, on_alarm);
    FILE* hf = hashes.empty() ? nullptr : fopen(hashes.c_str(), "w");

    double t0 = now_s();
    uint64_t runs = 0, steps = 0, events = 0;
    int64_t sim_seconds = 0;
    std::map<std::string, uint64_t> counters;
    std::set<uint64_t> states;
    std::set<std::string> seen_sigs;
    J viols = J::arr();
    J samples = J::arr();
    uint64_t nviol_files = 0, nondeterministic = 0, uncontrolled = 0;
    uint64_t last_index = 0;
    bool have_last = false;
    double last_ckpt = t0;
    auto write_summary = [&](bool final) {
        double wall = now_s() - t0;
        J s = J::obj();
        s.set("prop", prop);
        s.set("tier", tier);
        s.set("seed", (int64_t)seed);
        s.set("start", (int64_t)start);
        s.set("stride", (int64_t)stride);
        s.set("final", final);
        s.set("runs", runs);
        if (have_last) s.set("last_index", (int64_t)last_index);
        s.set("steps", steps);
        s.set("events", events);
        s.set("sim_seconds", sim_seconds);
        s.set("wall_s", wall);
        s.set("nondeterministic", nondeterministic);
        s.set("addresses_uncontrolled_runs", uncontrolled);
        J c = J::obj();
        for (auto& kv : counters) c.set(kv.first, kv.second);
        s.set("counters", c);
        s.set("distinct_states", (int64_t)states.size());
        s.set("violations", viols);
        s.set("samples", samples);
        if (!out.empty()) {
            std::string sb;
            for (uint64_t h : states) sb.append((const char*)&h, 8);
            write_file(out + ".states.tmp", sb);
            rename((out + ".states.tmp").c_str(), (out + ".states").c_str());
            write_file(out + ".tmp", s.str(1));
            rename((out + ".tmp").c_str(), out.c_str());
        } else if (final) {
            printf("%s\n", s.str(1).c_str());
        }
    };
    for (uint64_t idx = start;; idx += stride) {
        if (max_runs && runs >= max_runs) break;
        if (seconds > 0 && now_s() - t0 >= seconds) break;
        if (!max_runs && seconds <= 0) break;
        J plan = scen::make_plan(prop, seed, idx, tier);
        if (plan.k != J::Obj) {
            fprintf(stderr, "gdsim: no scenario for property %s\n", prop.c_str());
            return 3;
        }
        alarm((unsigned)step_limit);
        ex::ExecOptions eo;
        ex::RunResult r = ex::execute(plan, eo);
        alarm(0);
        runs++;
        last_index = idx;
        have_last = true;
        steps += r.steps;
        events += r.events;
        sim_seconds += r.sim_seconds;
        if (!r.addresses_controlled) uncontrolled++;
        for (auto& kv : r.counters) counters[kv.first] += kv.second;
        states.insert(r.states.begin(), r.states.end());
        if (hf) {
            fprintf(hf, "R %llu %016llx %016llx %zu\n", (unsigned long long)idx,
                    (unsigned long long)r.hash_struct, (unsigned long long)r.hash_content, r.viols.size());
            fflush(hf);
        }
        if (samples.a.size() < 3 && (runs == 1 || runs == 7 || runs == 23)) samples.push(plan_digest(plan));
        if (!r.viols.empty()) {
            // gate (a): the same plan executed again in this process must agree on hash and verdicts
            ex::RunResult r2 = ex::execute(plan, eo);
            bool same = r2.hash_struct == r.hash_struct && r2.viols.size() == r.viols.size();
            for (size_t i = 0; same && i < r.viols.size(); i++)
                same = r.viols[i].signature() == r2.viols[i].signature();
            if (!same) nondeterministic++;
            for (auto& v : r.viols) {
                counters["violations_seen"]++;
                if (!seen_sigs.insert(v.signature() + v.context.str()).second) continue;
                J vj = viol_json(v);
                vj.set("index", (int64_t)idx);
                vj.set("repeatable_in_process", same);
                vj.set("hash_struct", J::hex(r.hash_struct));
                vj.set("hash_content", J::hex(r.hash_content));
                if (!vdir.empty()) {
                    J file = J::obj();
                    file.set("plan", plan);
                    file.set("violation", vj);
                    char name[512];
                    snprintf(name, sizeof name, "%s/w%llu-%llu.json", vdir.c_str(), (unsigned long long)start,
                             (unsigned long long)nviol_files++);
                    write_file(name, file.str(1));
                    vj.set("plan_file", name);
                }
                viols.push(vj);
            }
        }
        if (runs == 1 || now_s() - last_ckpt > 0.5) {
            write_summary(false);
            last_ckpt = now_s();
        }
    }
    if (hf) fclose(hf);
    write_summary(true);
    return 0;
}
#if 0
    double wall = now_s() - t0;
    J s = J::obj();
    s.set("prop", prop);
    s.set("tier", tier);
    s.set("seed", (int64_t)seed);
    s.set("start", (int64_t)start);
    s.set("stride", (int64_t)stride);
    s.set("runs", runs);
    s.set("steps", steps);
    s.set("events", events);
    s.set("sim_seconds", sim_seconds);
    s.set("wall_s", wall);
    s.set("nondeterministic", nondeterministic);
    s.set("addresses_uncontrolled_runs", uncontrolled);
    J c = J::obj();
    for (auto& kv : counters) c.set(kv.first, kv.second);
    s.set("counters", c);
    s.set("distinct_states", (int64_t)states.size());
    s.set("violations", viols);
    s.set("samples", samples);
    if (!out.empty()) {
        write_file(out, s.str(1));
        std::string sb;
        for (uint64_t h : states) sb.append((const char*)&h, 8);
        write_file(out + ".states", sb);
    } else {
        printf("%s\n", s.str(1).c_str());
    }
    return 0;
}
#endif

static int cmd_replay(int argc, char** argv) {
    if (argc < 3) return 3;
    std::string text;
    if (!read_file(argv[2], text)) {
        fprintf(stderr, "gdsim: cannot read %s\n", argv[2]);
        return 3;
    }
    J file;
    if (!J::parse(text, file)) {
        fprintf(stderr, "gdsim: cannot parse %s\n", argv[2]);
        return 3;
    }
    const J& plan = file.has("plan") ? file.at("plan") : file;
    bool quiet = flag(argc, argv, "--quiet");
    std::string status = arg(argc, argv, "--status", "");
    if (!status.empty()) ex::status_init(status.c_str());
    signal(SIGALRM, on_alarm);
    alarm((unsigned)atoi(arg(argc, argv, "--step-seconds", "300")));
    ex::ExecOptions eo;
    eo.verbose = !quiet;
    eo.trace_out = stdout;
    if (!quiet) printf("REPLAY %s prop=%s seed=%s\n", argv[2], plan.gets("prop").c_str(), plan.gets("seed").c_str());
    ex::RunResult r = ex::execute(plan, eo);
    alarm(0);
    printf("HASH %016llx %016llx addresses=%s\n", (unsigned long long)r.hash_struct,
           (unsigned long long)r.hash_content, r.addresses_controlled ? "controlled" : "uncontrolled");
    for (auto& v : r.viols) {
        printf("VERDICT %s\n", v.signature().c_str());
        printf("  step %d: %s\n  context %s\n", v.step, v.detail.c_str(), v.context.str().c_str());
    }
    if (r.viols.empty()) printf("NO-VIOLATION\n");
    fflush(stdout);
    return r.viols.empty() ? 0 : 1;
}

static int cmd_gen(int argc, char** argv) {
    std::string prop = arg(argc, argv, "--prop", "C18");
    int tier = atoi(arg(argc, argv, "--tier", "0"));
    uint64_t seed = strtoull(arg(argc, argv, "--seed", "1"), nullptr, 0);
    uint64_t idx = strtoull(arg(argc, argv, "--index", "0"), nullptr, 0);
    J plan = scen::make_plan(prop, seed, idx, tier);
    printf("%s\n", plan.str(1).c_str());
    return 0;
}

static int cmd_minimise(int argc, char** argv) {
    if (argc < 3) return 3;
    std::string text;
    if (!read_file(argv[2], text)) return 3;
    J file;
    if (!J::parse(text, file)) return 3;
    J plan = file.has("plan") ? file.at("plan") : file;
    std::string sig = arg(argc, argv, "--sig", "");
    if (sig.empty() && file.has("violation")) sig = file.at("violation").gets("signature");
    std::string out = arg(argc, argv, "--out", "");
    int budget = atoi(arg(argc, argv, "--budget", "400"));
    J context = file.has("violation") ? file.at("violation").at("context") : J::obj();
    mini::Result mr = mini::minimise(plan, sig, context, budget);
    J o = J::obj();
    o.set("plan", mr.plan);
    J e = J::obj();
    e.set("signature", sig);
    e.set("reproduced", mr.reproduced);
    e.set("evaluations", mr.evaluations);
    e.set("ops_before", mr.ops_before);
    e.set("ops_after", mr.ops_after);
    e.set("weight_before", mr.weight_before);
    e.set("weight_after", mr.weight_after);
    e.set("hash_struct", J::hex(mr.hash_struct));
    e.set("detail", mr.detail);
    e.set("context", mr.context);
    o.set("expect", e);
    if (!out.empty())
        write_file(out, o.str(1));
    else
        printf("%s\n", o.str(1).c_str());
    return mr.reproduced ? 0 : 2;
}

int main(int argc, char** argv) {
    if (argc < 2) {
        fprintf(stderr, "usage: gdsim explore|replay|minimise|gen|selftest ...\n");
        return 3;
    }
    std::string cmd = argv[1];
    if (cmd == "explore") return cmd_explore(argc, argv);
    if (cmd == "replay") return cmd_replay(argc, argv);
    if (cmd == "gen") return cmd_gen(argc, argv);
    if (cmd == "minimise") return cmd_minimise(argc, argv);
    if (cmd == "selftest") return selftest::run(argc, argv);
    fprintf(stderr, "gdsim: unknown command %s\n", cmd.c_str());
    return 3;
}
