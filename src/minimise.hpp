// Plan minimisation restricted to one violation signature.  Every candidate runs in a forked child so
// that sanitizer aborts, crashes and hangs are contained and classified.
#ifndef GDSIM_MINIMISE_HPP
#define GDSIM_MINIMISE_HPP

#include <fcntl.h>
#include <signal.h>
#include <sys/wait.h>
#include <unistd.h>

#include <functional>

#include "exec.hpp"

namespace mini {

struct Eval {
    std::vector<std::string> sigs;
    std::vector<std::string> details;
    std::vector<J> contexts;
    uint64_t hash_struct = 0;
    bool crashed = false;
};

// run one plan in a child process; a child that dies yields "<prop>|<op>|process_abort"
inline Eval evaluate(const J& plan, int timeout_s = 30) {
    Eval ev;
    int fds[2];
    if (pipe(fds) != 0) return ev;
    fflush(stdout);
    fflush(stderr);
    ex::status_init(nullptr);
    pid_t pid = fork();
    if (pid == 0) {
        close(fds[0]);
        int devnull = open("/dev/null", O_WRONLY);
        if (devnull >= 0) dup2(devnull, 2);
        alarm((unsigned)timeout_s);
        signal(SIGALRM, SIG_DFL);
        ex::ExecOptions eo;
        // announce steps through the pipe so that the parent can attribute a crash
        ex::RunResult r = ex::execute(plan, eo);
        J o = J::obj();
        J s = J::arr();
        for (auto& v : r.viols) {
            J e = J::obj();
            e.set("sig", v.signature());
            e.set("detail", v.detail);
            e.set("context", v.context);
            s.push(e);
        }
        o.set("viols", s);
        o.set("hash", J::hex(r.hash_struct));
        std::string text = o.str();
        size_t off = 0;
        while (off < text.size()) {
            ssize_t k = write(fds[1], text.data() + off, text.size() - off);
            if (k <= 0) break;
            off += (size_t)k;
        }
        _exit(0);
    }
    close(fds[1]);
    std::string text;
    char buf[4096];
    ssize_t k;
    while ((k = read(fds[0], buf, sizeof buf)) > 0) text.append(buf, (size_t)k);
    close(fds[0]);
    int st = 0;
    waitpid(pid, &st, 0);
    J o;
    if (!(WIFEXITED(st) && WEXITSTATUS(st) == 0) || !J::parse(text, o)) {
        ev.crashed = true;
        ev.sigs.push_back(plan.gets("prop") + "|" + ex::status_op() + "|process_abort");
        ev.details.push_back("the process executing the plan died (sanitizer report, signal or watchdog)");
        ev.contexts.push_back(J::obj());
        return ev;
    }
    for (auto& e : o.at("viols").a) {
        ev.sigs.push_back(e.gets("sig"));
        ev.details.push_back(e.gets("detail"));
        ev.contexts.push_back(e.at("context"));
    }
    ev.hash_struct = o.at("hash").as_hex();
    return ev;
}

struct Result {
    J plan;
    bool reproduced = false;
    int evaluations = 0;
    int64_t ops_before = 0, ops_after = 0, weight_before = 0, weight_after = 0;
    uint64_t hash_struct = 0;
    std::string detail;
    J context = J::obj();
};

inline bool sig_matches(const std::string& have, const std::string& want) {
    if (have == want) return true;
    // a process abort has no op name: match on property and clause
    size_t a = want.rfind('|');
    if (a != std::string::npos && want.substr(a) == "|process_abort") {
        size_t b = have.rfind('|');
        return b != std::string::npos && have.substr(b) == "|process_abort" &&
               have.substr(0, have.find('|')) == want.substr(0, want.find('|'));
    }
    return false;
}

inline int64_t plan_weight(const J& plan) {
    int64_t w = 0;
    for (auto& m : plan.at("models").a) w += (int64_t)model::weight(model::lib_from(m));
    return w;
}

struct Minimiser {
    std::string sig;
    int budget;
    std::string file_state;   // the situation must stay the same one (truncated / complete), not only the clause
    int evals = 0;
    Eval last;
    // wall-clock bound on the whole minimisation: every evaluation of a plan that hangs costs its full
    // watchdog time, and a replay file that is less small is better than a check that takes hours
    double deadline = 0;
    static double now_s() {
        struct timespec ts;
        clock_gettime(CLOCK_MONOTONIC, &ts);
        return (double)ts.tv_sec + 1e-9 * (double)ts.tv_nsec;
    }
    bool test(const J& plan) {
        if (evals >= budget) return false;
        if (deadline > 0 && now_s() > deadline && evals > 0) {
            budget = evals;  // stops every loop that looks at the budget
            return false;
        }
        evals++;
        Eval ev = evaluate(plan);
        for (size_t i = 0; i < ev.sigs.size(); i++)
            if (sig_matches(ev.sigs[i], sig) &&
                (file_state.empty() || ev.contexts[i].gets("file_state") == file_state)) {
                last = ev;
                // keep the matching entry first
                std::swap(last.sigs[0], last.sigs[i]);
                std::swap(last.details[0], last.details[i]);
                std::swap(last.contexts[0], last.contexts[i]);
                return true;
            }
        return false;
    }

    // generic ddmin over a JSON array reachable through `get`
    bool ddmin(J& plan, const std::function<J*(J&)>& get, size_t keep_min = 0) {
        bool changed = false;
        size_t n = 2;
        while (true) {
            J* arr = get(plan);
            if (!arr || arr->a.size() <= keep_min) break;
            size_t len = arr->a.size();
            if (n > len) n = len;
            bool reduced = false;
            size_t chunk = (len + n - 1) / n;
            for (size_t start = 0; start < len; start += chunk) {
                J cand = plan;
                J* ca = get(cand);
                size_t end = std::min(len, start + chunk);
                if (len - (end - start) < keep_min) continue;
                ca->a.erase(ca->a.begin() + start, ca->a.begin() + end);
                if (test(cand)) {
                    plan = cand;
                    reduced = changed = true;
                    n = n > 2 ? n - 1 : 2;
                    break;
                }
                if (evals >= budget) return changed;
            }
            if (!reduced) {
                if (n >= len) break;
                n = std::min(len, n * 2);
            }
        }
        return changed;
    }
};

inline Result minimise(const J& plan0, const std::string& sig, const J& context0, int budget) {
    Result R;
    Minimiser M{sig, budget, context0.gets("file_state")};
    M.deadline = Minimiser::now_s() + (getenv("GDSIM_MINIMISE_SECONDS") ? atof(getenv("GDSIM_MINIMISE_SECONDS")) : 420.0);
    J plan = plan0;
    R.ops_before = (int64_t)plan.at("ops").a.size();
    R.weight_before = plan_weight(plan);
    if (!M.test(plan)) {
        R.plan = plan;
        R.evaluations = M.evals;
        return R;
    }
    R.reproduced = true;
    J context = M.last.contexts.empty() ? context0 : M.last.contexts[0];
    auto ops_of = [](J& p) -> J* {
        for (auto& kv : p.o)
            if (kv.first == "ops") return &kv.second;
        return nullptr;
    };
    auto models_of = [](J& p) -> J* {
        for (auto& kv : p.o)
            if (kv.first == "models") return &kv.second;
        return nullptr;
    };
    // 1. a sweep that failed at one cut becomes that single cut
    if (context.has("cut_at")) {
        J cand = plan;
        J* ops = ops_of(cand);
        for (size_t i = 0; ops && i < ops->a.size(); i++) {
            if (ops->a[i].gets("op") != "sweep") continue;
            J sw = ops->a[i];
            std::string dst = "/sim/cutmin.gds";
            J c = J::obj();
            c.set("op", "cut");
            c.set("src", sw.gets("src"));
            c.set("dst", dst);
            c.set("at", context.geti("cut_at"));
            std::vector<J> repl;
            repl.push_back(c);
            for (auto& rd : sw.at("readers").a) {
                J r = J::obj();
                r.set("op", rd.s);
                r.set("file", dst);
                r.set("repeat", 2);
                repl.push_back(r);
            }
            ops->a.erase(ops->a.begin() + i);
            ops->a.insert(ops->a.begin() + i, repl.begin(), repl.end());
            break;
        }
        if (M.test(cand)) plan = cand;
    }
    for (int round = 0; round < 2 && M.evals < budget; round++) {
        // 2. operations
        M.ddmin(plan, ops_of, 1);
        // 3. per-op simplifications
        {
            J* ops = ops_of(plan);
            for (size_t i = 0; ops && i < ops->a.size() && M.evals < budget; i++) {
                static const char* const drop[] = {"fault", "buf", "choices", "ts", "filter", "unit"};
                for (const char* key : drop) {
                    if (!ops->a[i].has(key)) continue;
                    if (!strcmp(key, "choices")) continue;  // the encoder needs them
                    J cand = plan;
                    J& o = ops_of(cand)->a[i];
                    for (size_t k = 0; k < o.o.size(); k++)
                        if (o.o[k].first == key) {
                            o.o.erase(o.o.begin() + k);
                            break;
                        }
                    if (M.test(cand)) {
                        plan = cand;
                        ops = ops_of(plan);
                    }
                }
                if (ops->a[i].geti("repeat", 1) > 1) {
                    for (int64_t rep : {1, 2}) {
                        if (rep >= ops->a[i].geti("repeat")) break;
                        J cand = plan;
                        ops_of(cand)->a[i].set("repeat", rep);
                        if (M.test(cand)) {
                            plan = cand;
                            ops = ops_of(plan);
                            break;
                        }
                    }
                }
            }
        }
        // 4. models: cells, then element lists, then element details
        J* models = models_of(plan);
        for (size_t mi = 0; models && mi < models->a.size() && M.evals < budget; mi++) {
            auto cells_of = [&](J& p) -> J* {
                J* ms = models_of(p);
                if (!ms || mi >= ms->a.size()) return nullptr;
                for (auto& kv : ms->a[mi].o)
                    if (kv.first == "cells") return &kv.second;
                return nullptr;
            };
            M.ddmin(plan, cells_of, 0);
            J* cells = cells_of(plan);
            size_t ncell = cells ? cells->a.size() : 0;
            for (size_t ci = 0; ci < ncell && M.evals < budget; ci++) {
                for (const char* kind : {"polys", "paths", "labels", "refs", "props"}) {
                    auto list_of = [&](J& p) -> J* {
                        J* cs = cells_of(p);
                        if (!cs || ci >= cs->a.size()) return nullptr;
                        for (auto& kv : cs->a[ci].o)
                            if (kv.first == kind) return &kv.second;
                        return nullptr;
                    };
                    M.ddmin(plan, list_of, 0);
                    J* list = list_of(plan);
                    size_t nel = list ? list->a.size() : 0;
                    if (!strcmp(kind, "props")) continue;
                    for (size_t ei = 0; ei < nel && M.evals < budget; ei++) {
                        for (const char* key : {"rep", "props", "hint"}) {
                            J* l2 = list_of(plan);
                            if (!l2 || ei >= l2->a.size() || !l2->a[ei].has(key)) continue;
                            J cand = plan;
                            J& el = list_of(cand)->a[ei];
                            for (size_t k = 0; k < el.o.size(); k++)
                                if (el.o[k].first == key) {
                                    el.o.erase(el.o.begin() + k);
                                    break;
                                }
                            if (M.test(cand)) plan = cand;
                        }
                        // fewer vertices (pairs of numbers)
                        for (const char* key : {"pts", "spine"}) {
                            J* l2 = list_of(plan);
                            if (!l2 || ei >= l2->a.size() || !l2->a[ei].has(key)) continue;
                            size_t minpts = !strcmp(key, "pts") ? 3 : 2;
                            while (M.evals < budget) {
                                J* l3 = list_of(plan);
                                const J& arr = l3->a[ei].at(key);
                                size_t np = arr.a.size() / 2;
                                if (np <= minpts) break;
                                J cand = plan;
                                J& el = list_of(cand)->a[ei];
                                for (auto& kv : el.o)
                                    if (kv.first == key) {
                                        size_t keep = std::max(minpts, np / 2);
                                        kv.second.a.resize(keep * 2);
                                    }
                                if (M.test(cand))
                                    plan = cand;
                                else
                                    break;
                            }
                        }
                    }
                }
            }
            models = models_of(plan);
        }
    }
    // final confirmation run gives the hash and detail recorded in the replay file
    M.budget = M.evals + 1;
    M.deadline = 0;
    if (M.test(plan)) {
        R.hash_struct = M.last.hash_struct;
        R.detail = M.last.details.empty() ? "" : M.last.details[0];
        R.context = M.last.contexts.empty() ? J::obj() : M.last.contexts[0];
    } else {
        R.reproduced = false;
    }
    R.plan = plan;
    R.evaluations = M.evals;
    R.ops_after = (int64_t)plan.at("ops").a.size();
    R.weight_after = plan_weight(plan);
    return R;
}

}  // namespace mini

#endif
