// Abstract layout model M (independent of gdstk's structs) + JSON round trip.
// Coordinates are int64 "decigrid" units: 10 dg = one database grid step (= `precision` metres).
// A coordinate is either an exact grid multiple (dg % 10 == 0) or off grid by a fraction whose
// last digit is never 5, so "rounded to the grid" is never a floating-point tie.
#ifndef GDSIM_MODEL_HPP
#define GDSIM_MODEL_HPP

#include <stdint.h>

#include <string>
#include <vector>

#include "json.hpp"

namespace model {

typedef int64_t dg_t;

struct Pt {
    dg_t x = 0, y = 0;
};

struct MVal {
    int kind = 0;  // 0 unsigned, 1 signed, 2 real, 3 bytes
    uint64_t u = 0;
    int64_t i = 0;
    double r = 0;
    std::string s;
};

struct MProp {
    std::string name;  // "S_GDS_PROPERTY" with vals [u attr, bytes value+NUL] is a GDSII property
    std::vector<MVal> vals;
};

enum RepType { REP_NONE = 0, REP_RECT, REP_REGULAR, REP_EXPLICIT, REP_EX, REP_EY };

struct MRep {
    int type = REP_NONE;
    uint64_t cols = 1, rows = 1;
    Pt sp;      // rectangular spacing
    Pt v1, v2;  // regular
    std::vector<Pt> offs;
    std::vector<dg_t> coords;
};

struct MPoly {
    uint32_t layer = 0, dtype = 0;
    std::vector<Pt> pts;
    MRep rep;
    std::vector<MProp> props;
    int hint = 0;  // 1: circle candidate (ccenter, cradius), 2: region-compared (unique tag in cell)
    Pt ccenter;
    dg_t cradius = 0;
};

enum EndKind { END_FLUSH = 0, END_ROUND = 1, END_HALF = 2, END_EXT = 3, END_SMOOTH = 4 };

struct MPath {
    uint32_t layer = 0, dtype = 0;
    std::vector<Pt> spine;
    dg_t hw = 0;  // half width
    int end = END_FLUSH;
    dg_t eu = 0, ev = 0;
    bool scale_width = true;
    MRep rep;
    std::vector<MProp> props;
    int impl = 0;        // 0 FlexPath, 1 RobustPath
    bool simple = true;  // false: written as polygons (region-compared; unique tag in cell)
    dg_t taper = 0;      // non-simple FlexPath: half-width at the far end (0 = constant width)
    dg_t bend = 0;       // non-simple FlexPath: radius of circular bends at the corners (0 = plain joins)
    int nelem = 1;       // parallel elements (a simple path with several: straight axis-parallel spine only)
    dg_t sep = 0;        // separation between elements
    int join = 0;        // 0 natural, 1 miter, 2 bevel, 3 round
    std::vector<dg_t> voffs;  // simple single-element FlexPath on a straight axis-parallel spine: offset of the
                              // element from the spine at every vertex (the centre line written is the spine displaced)
    double tol_steps = 0;     // simple FlexPath: its own tolerance in grid steps (0: the library default of 0.01); a
                              // vertex closer than that to the last vertex kept is not written
    double prescale = 1; // built at 1/prescale of its size and then scaled up by the library's own scale() (a power of two)
};

// the centre line a simple path is written with: the spine, displaced sideways by the per-vertex offsets where
// the path has them (straight axis-parallel spines only, where the displacement is exact; the normal is the
// direction of travel turned left)
inline std::vector<Pt> centre_line(const MPath& p) {
    std::vector<Pt> s = p.spine;
    if (p.tol_steps > 0 && p.voffs.empty()) {
        // the writer's thinning rule, in exact arithmetic (tolerances are k + 0.05 steps: the comparison is never a tie)
        const double t = p.tol_steps * 10;
        std::vector<Pt> kept;
        for (auto& q : s) {
            if (!kept.empty()) {
                double dx = (double)(q.x - kept.back().x), dy = (double)(q.y - kept.back().y);
                if (dx * dx + dy * dy < t * t) continue;
            }
            kept.push_back(q);
        }
        s.swap(kept);
    }
    if (p.voffs.size() != s.size() || s.size() < 2) return s;
    dg_t dx = s.back().x - s[0].x, dy = s.back().y - s[0].y;
    dg_t nx = dy > 0 ? -1 : (dy < 0 ? 1 : 0), ny = dx > 0 ? 1 : (dx < 0 ? -1 : 0);
    for (size_t i = 0; i < s.size(); i++) s[i] = Pt{s[i].x + nx * p.voffs[i], s[i].y + ny * p.voffs[i]};
    return s;
}

struct MLabel {
    std::string text;
    uint32_t layer = 0, ttype = 0;
    Pt origin;
    int anchor = 0;
    double rot_deg = 0;
    double mag = 1;
    bool xrefl = false;
    MRep rep;
    std::vector<MProp> props;
};

struct MRef {
    std::string target;
    int how = 0;  // 0: by pointer (Cell*), 1: by name
    Pt origin;
    double rot_deg = 0;
    double mag = 1;
    bool xrefl = false;
    MRep rep;
    std::vector<MProp> props;
};

struct MCell {
    std::string name;
    std::vector<MPoly> polys;
    std::vector<MPath> paths;
    std::vector<MLabel> labels;
    std::vector<MRef> refs;
    std::vector<MProp> props;
};

struct MLib {
    std::string name = "LIB";
    double unit = 1e-6, precision = 1e-9;
    std::vector<MCell> cells;
    std::vector<MProp> props;
    std::vector<std::string> ext_cells;  // cells that exist as objects but are NOT added to the library
    const MCell* find(const std::string& n) const {
        for (auto& c : cells)
            if (c.name == n) return &c;
        return nullptr;
    }
    bool in_lib(const std::string& n) const { return find(n) != nullptr; }
};

// ---------------------------------------------------------------- JSON
inline J to_json(const Pt& p) {
    J j = J::arr();
    j.push(p.x);
    j.push(p.y);
    return j;
}
inline Pt pt_from(const J& j) {
    Pt p;
    if (j.a.size() >= 2) {
        p.x = j.a[0].i;
        p.y = j.a[1].i;
    }
    return p;
}
inline J to_json(const std::vector<Pt>& v) {
    J j = J::arr();
    for (auto& p : v) {
        j.a.push_back(J(p.x));
        j.a.push_back(J(p.y));
    }
    return j;
}
inline std::vector<Pt> pts_from(const J& j) {
    std::vector<Pt> v;
    for (size_t i = 0; i + 1 < j.a.size(); i += 2) v.push_back(Pt{j.a[i].i, j.a[i + 1].i});
    return v;
}
inline std::string hexs(const std::string& s) {
    static const char* H = "0123456789abcdef";
    std::string r;
    for (unsigned char c : s) {
        r += H[c >> 4];
        r += H[c & 15];
    }
    return r;
}
inline std::string unhexs(const std::string& s) {
    std::string r;
    auto v = [](char c) { return c <= '9' ? c - '0' : (c | 32) - 'a' + 10; };
    for (size_t i = 0; i + 1 < s.size(); i += 2) r += (char)((v(s[i]) << 4) | v(s[i + 1]));
    return r;
}
inline bool printable(const std::string& s) {
    for (unsigned char c : s)
        if (c < 0x20 || c > 0x7e) return false;
    return true;
}
inline J to_json(const MVal& v) {
    J j = J::obj();
    switch (v.kind) {
        case 0: j.set("u", J::hex(v.u)); break;
        case 1: j.set("i", v.i); break;
        case 2: j.set("r", v.r); break;
        default:
            if (printable(v.s))
                j.set("s", v.s);
            else
                j.set("x", hexs(v.s));
    }
    return j;
}
inline MVal val_from(const J& j) {
    MVal v;
    if (j.has("u")) {
        v.kind = 0;
        v.u = j.at("u").as_hex();
    } else if (j.has("i")) {
        v.kind = 1;
        v.i = j.geti("i");
    } else if (j.has("r")) {
        v.kind = 2;
        v.r = j.getd("r");
    } else if (j.has("s")) {
        v.kind = 3;
        v.s = j.gets("s");
    } else {
        v.kind = 3;
        v.s = unhexs(j.gets("x"));
    }
    return v;
}
inline J to_json(const std::vector<MProp>& ps) {
    J j = J::arr();
    for (auto& p : ps) {
        J o = J::obj();
        o.set("name", p.name);
        J vs = J::arr();
        for (auto& v : p.vals) vs.push(to_json(v));
        o.set("vals", vs);
        j.push(o);
    }
    return j;
}
inline std::vector<MProp> props_from(const J& j) {
    std::vector<MProp> r;
    for (auto& o : j.a) {
        MProp p;
        p.name = o.gets("name");
        for (auto& v : o.at("vals").a) p.vals.push_back(val_from(v));
        r.push_back(p);
    }
    return r;
}
inline J to_json(const MRep& r) {
    J j = J::obj();
    j.set("type", r.type);
    switch (r.type) {
        case REP_RECT:
            j.set("cols", r.cols);
            j.set("rows", r.rows);
            j.set("sp", to_json(r.sp));
            break;
        case REP_REGULAR:
            j.set("cols", r.cols);
            j.set("rows", r.rows);
            j.set("v1", to_json(r.v1));
            j.set("v2", to_json(r.v2));
            break;
        case REP_EXPLICIT: j.set("offs", to_json(r.offs)); break;
        case REP_EX:
        case REP_EY: {
            J c = J::arr();
            for (dg_t v : r.coords) c.push(v);
            j.set("coords", c);
        } break;
    }
    return j;
}
inline MRep rep_from(const J& j) {
    MRep r;
    r.type = (int)j.geti("type");
    r.cols = (uint64_t)j.geti("cols", 1);
    r.rows = (uint64_t)j.geti("rows", 1);
    if (j.has("sp")) r.sp = pt_from(j.at("sp"));
    if (j.has("v1")) r.v1 = pt_from(j.at("v1"));
    if (j.has("v2")) r.v2 = pt_from(j.at("v2"));
    if (j.has("offs")) r.offs = pts_from(j.at("offs"));
    if (j.has("coords"))
        for (auto& c : j.at("coords").a) r.coords.push_back(c.i);
    return r;
}
inline J to_json(const MPoly& p) {
    J j = J::obj();
    j.set("layer", p.layer);
    j.set("dtype", p.dtype);
    j.set("pts", to_json(p.pts));
    if (p.rep.type) j.set("rep", to_json(p.rep));
    if (!p.props.empty()) j.set("props", to_json(p.props));
    if (p.hint) {
        j.set("hint", p.hint);
        j.set("cc", to_json(p.ccenter));
        j.set("cr", p.cradius);
    }
    return j;
}
inline MPoly poly_from(const J& j) {
    MPoly p;
    p.layer = (uint32_t)j.geti("layer");
    p.dtype = (uint32_t)j.geti("dtype");
    p.pts = pts_from(j.at("pts"));
    if (j.has("rep")) p.rep = rep_from(j.at("rep"));
    if (j.has("props")) p.props = props_from(j.at("props"));
    p.hint = (int)j.geti("hint");
    if (j.has("cc")) p.ccenter = pt_from(j.at("cc"));
    p.cradius = j.geti("cr");
    return p;
}
inline J to_json(const MPath& p) {
    J j = J::obj();
    j.set("layer", p.layer);
    j.set("dtype", p.dtype);
    j.set("spine", to_json(p.spine));
    j.set("hw", p.hw);
    j.set("end", p.end);
    if (p.end == END_EXT) {
        j.set("eu", p.eu);
        j.set("ev", p.ev);
    }
    j.set("scale_width", p.scale_width);
    if (p.rep.type) j.set("rep", to_json(p.rep));
    if (!p.props.empty()) j.set("props", to_json(p.props));
    j.set("impl", p.impl);
    if (p.prescale != 1) j.set("prescale", p.prescale);
    if (p.tol_steps > 0) j.set("tol_steps", p.tol_steps);
    if (!p.voffs.empty()) {
        J a = J::arr();
        for (dg_t v : p.voffs) a.push((int64_t)v);
        j.set("voffs", a);
    }
    if (!p.simple) {
        j.set("simple", false);
        j.set("nelem", p.nelem);
        j.set("sep", p.sep);
        j.set("join", p.join);
        if (p.taper) j.set("taper", p.taper);
        if (p.bend) j.set("bend", p.bend);
    } else if (p.nelem > 1) {
        j.set("nelem", p.nelem);  // several parallel elements, each written as a PATH of its own
        j.set("sep", p.sep);
        if (p.bend) j.set("bend", p.bend);
    }
    return j;
}
inline MPath path_from(const J& j) {
    MPath p;
    p.layer = (uint32_t)j.geti("layer");
    p.dtype = (uint32_t)j.geti("dtype");
    p.spine = pts_from(j.at("spine"));
    p.hw = j.geti("hw");
    p.end = (int)j.geti("end");
    p.eu = j.geti("eu");
    p.ev = j.geti("ev");
    p.scale_width = j.getb("scale_width", true);
    if (j.has("rep")) p.rep = rep_from(j.at("rep"));
    if (j.has("props")) p.props = props_from(j.at("props"));
    p.impl = (int)j.geti("impl");
    p.simple = j.getb("simple", true);
    p.nelem = (int)j.geti("nelem", 1);
    p.taper = j.geti("taper");
    p.bend = j.geti("bend");
    p.sep = j.geti("sep");
    p.join = (int)j.geti("join");
    p.prescale = j.has("prescale") ? j.getd("prescale", 1) : 1;
    p.tol_steps = j.getd("tol_steps", 0);
    if (j.has("voffs"))
        for (auto& v : j.at("voffs").a) p.voffs.push_back((dg_t)v.i);
    return p;
}
inline J to_json(const MLabel& l) {
    J j = J::obj();
    if (printable(l.text))
        j.set("text", l.text);
    else
        j.set("textx", hexs(l.text));
    j.set("layer", l.layer);
    j.set("ttype", l.ttype);
    j.set("origin", to_json(l.origin));
    j.set("anchor", l.anchor);
    j.set("rot", l.rot_deg);
    j.set("mag", l.mag);
    j.set("xrefl", l.xrefl);
    if (l.rep.type) j.set("rep", to_json(l.rep));
    if (!l.props.empty()) j.set("props", to_json(l.props));
    return j;
}
inline MLabel label_from(const J& j) {
    MLabel l;
    l.text = j.has("textx") ? unhexs(j.gets("textx")) : j.gets("text");
    l.layer = (uint32_t)j.geti("layer");
    l.ttype = (uint32_t)j.geti("ttype");
    l.origin = pt_from(j.at("origin"));
    l.anchor = (int)j.geti("anchor");
    l.rot_deg = j.getd("rot");
    l.mag = j.getd("mag", 1);
    l.xrefl = j.getb("xrefl");
    if (j.has("rep")) l.rep = rep_from(j.at("rep"));
    if (j.has("props")) l.props = props_from(j.at("props"));
    return l;
}
inline J to_json(const MRef& r) {
    J j = J::obj();
    j.set("target", r.target);
    j.set("how", r.how);
    j.set("origin", to_json(r.origin));
    j.set("rot", r.rot_deg);
    j.set("mag", r.mag);
    j.set("xrefl", r.xrefl);
    if (r.rep.type) j.set("rep", to_json(r.rep));
    if (!r.props.empty()) j.set("props", to_json(r.props));
    return j;
}
inline MRef ref_from(const J& j) {
    MRef r;
    r.target = j.gets("target");
    r.how = (int)j.geti("how");
    r.origin = pt_from(j.at("origin"));
    r.rot_deg = j.getd("rot");
    r.mag = j.getd("mag", 1);
    r.xrefl = j.getb("xrefl");
    if (j.has("rep")) r.rep = rep_from(j.at("rep"));
    if (j.has("props")) r.props = props_from(j.at("props"));
    return r;
}
inline J to_json(const MCell& c) {
    J j = J::obj();
    j.set("name", c.name);
    J a = J::arr();
    for (auto& p : c.polys) a.push(to_json(p));
    j.set("polys", a);
    a = J::arr();
    for (auto& p : c.paths) a.push(to_json(p));
    j.set("paths", a);
    a = J::arr();
    for (auto& p : c.labels) a.push(to_json(p));
    j.set("labels", a);
    a = J::arr();
    for (auto& p : c.refs) a.push(to_json(p));
    j.set("refs", a);
    if (!c.props.empty()) j.set("props", to_json(c.props));
    return j;
}
inline MCell cell_from(const J& j) {
    MCell c;
    c.name = j.gets("name");
    for (auto& p : j.at("polys").a) c.polys.push_back(poly_from(p));
    for (auto& p : j.at("paths").a) c.paths.push_back(path_from(p));
    for (auto& p : j.at("labels").a) c.labels.push_back(label_from(p));
    for (auto& p : j.at("refs").a) c.refs.push_back(ref_from(p));
    if (j.has("props")) c.props = props_from(j.at("props"));
    return c;
}
inline J to_json(const MLib& l) {
    J j = J::obj();
    j.set("name", l.name);
    j.set("unit", l.unit);
    j.set("precision", l.precision);
    J a = J::arr();
    for (auto& c : l.cells) a.push(to_json(c));
    j.set("cells", a);
    if (!l.props.empty()) j.set("props", to_json(l.props));
    if (!l.ext_cells.empty()) {
        J e = J::arr();
        for (auto& n : l.ext_cells) e.push(n);
        j.set("ext_cells", e);
    }
    return j;
}
inline MLib lib_from(const J& j) {
    MLib l;
    l.name = j.gets("name", "LIB");
    l.unit = j.getd("unit", 1e-6);
    l.precision = j.getd("precision", 1e-9);
    for (auto& c : j.at("cells").a) l.cells.push_back(cell_from(c));
    if (j.has("props")) l.props = props_from(j.at("props"));
    for (auto& n : j.at("ext_cells").a) l.ext_cells.push_back(n.s);
    return l;
}

// size measure used by the shrinker and evidence
inline uint64_t weight(const MLib& l) {
    uint64_t w = 0;
    for (auto& c : l.cells) {
        w += 1 + c.props.size();
        for (auto& p : c.polys) w += 1 + p.pts.size() + p.props.size() + (p.rep.type ? 2 : 0);
        for (auto& p : c.paths) w += 1 + p.spine.size() + p.props.size() + (p.rep.type ? 2 : 0);
        for (auto& p : c.labels) w += 1 + p.text.size() / 4 + p.props.size() + (p.rep.type ? 2 : 0);
        for (auto& p : c.refs) w += 1 + p.props.size() + (p.rep.type ? 2 : 0);
    }
    return w + l.props.size();
}

}  // namespace model

#endif
