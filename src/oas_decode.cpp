// Strict OASIS decoder of the peer tool.
#include <math.h>
#include <string.h>
#include <zlib.h>

#include "canon.hpp"
#include "oas_peer.hpp"

namespace oaspeer {

using model::dg_t;
using model::Pt;

uint32_t crc32(const uint8_t* p, size_t n) {
    static uint32_t table[256];
    static bool init = false;
    if (!init) {
        for (uint32_t i = 0; i < 256; i++) {
            uint32_t c = i;
            for (int k = 0; k < 8; k++) c = (c & 1) ? (0xEDB88320u ^ (c >> 1)) : (c >> 1);
            table[i] = c;
        }
        init = true;
    }
    uint32_t c = 0xFFFFFFFFu;
    for (size_t i = 0; i < n; i++) c = table[(c ^ p[i]) & 0xFF] ^ (c >> 8);
    return c ^ 0xFFFFFFFFu;
}

namespace {

struct Failure {
    std::string what;
};

struct Rd {
    const uint8_t* p;
    size_t n;
    size_t pos = 0;
    size_t base = 0;      // file offset of p[0] (top level only)
    bool top = true;
    uint8_t byte() {
        if (pos >= n) throw Failure{"unexpected end of data"};
        return p[pos++];
    }
    uint64_t uint() {
        uint64_t v = 0;
        int shift = 0;
        while (true) {
            uint8_t b = byte();
            if (shift >= 63 && (b & 0x7E)) throw Failure{"unsigned integer above 64 bits"};
            v |= (uint64_t)(b & 0x7F) << shift;
            if (!(b & 0x80)) break;
            shift += 7;
            if (shift > 63) throw Failure{"unsigned integer too long"};
        }
        return v;
    }
    int64_t sint() {
        // sign in the lowest bit, magnitude above it: 65 bits for the most negative 64-bit value
        unsigned __int128 v = 0;
        int shift = 0;
        while (true) {
            uint8_t b = byte();
            if (shift > 63 && (b & 0x7C)) throw Failure{"signed integer above 64 bits"};
            v |= (unsigned __int128)(b & 0x7F) << shift;
            if (!(b & 0x80)) break;
            shift += 7;
            if (shift > 70) throw Failure{"signed integer too long"};
        }
        bool neg = (v & 1) != 0;
        unsigned __int128 m = v >> 1;
        if (m > ((unsigned __int128)1 << 63) || (m == ((unsigned __int128)1 << 63) && !neg)) throw Failure{"signed integer above 64 bits"};
        if (m == ((unsigned __int128)1 << 63)) return INT64_MIN;
        return neg ? -(int64_t)(uint64_t)m : (int64_t)(uint64_t)m;
    }
    double real() {
        uint64_t t = uint();
        return real_of(t);
    }
    double real_of(uint64_t t) {
        switch (t) {
            case 0: return (double)uint();
            case 1: return -(double)uint();
            case 2: {
                uint64_t d = uint();
                if (!d) throw Failure{"reciprocal of zero"};
                return 1.0 / (double)d;
            }
            case 3: {
                uint64_t d = uint();
                if (!d) throw Failure{"reciprocal of zero"};
                return -1.0 / (double)d;
            }
            case 4: {
                uint64_t a = uint(), b = uint();
                if (!b) throw Failure{"ratio with zero denominator"};
                return (double)a / (double)b;
            }
            case 5: {
                uint64_t a = uint(), b = uint();
                if (!b) throw Failure{"ratio with zero denominator"};
                return -(double)a / (double)b;
            }
            case 6: {
                uint8_t b[4];
                for (int i = 0; i < 4; i++) b[i] = byte();
                uint32_t u = (uint32_t)b[0] | ((uint32_t)b[1] << 8) | ((uint32_t)b[2] << 16) | ((uint32_t)b[3] << 24);
                float f;
                memcpy(&f, &u, 4);
                return (double)f;
            }
            case 7: {
                uint64_t u = 0;
                for (int i = 0; i < 8; i++) u |= (uint64_t)byte() << (8 * i);
                double d;
                memcpy(&d, &u, 8);
                return d;
            }
            default: throw Failure{"unknown real type " + std::to_string(t)};
        }
    }
    std::string str() {
        uint64_t len = uint();
        if (len > n - pos) throw Failure{"string extends past end of data"};
        std::string s((const char*)p + pos, (size_t)len);
        pos += (size_t)len;
        return s;
    }
    // deltas, in grid units
    void delta2(int64_t& x, int64_t& y) {
        uint64_t v = uint();
        int64_t m = (int64_t)(v >> 2);
        x = y = 0;
        switch (v & 3) {
            case 0: x = m; break;
            case 1: y = m; break;
            case 2: x = -m; break;
            default: y = -m;
        }
    }
    static void octant(int dir, int64_t m, int64_t& x, int64_t& y) {
        switch (dir) {
            case 0: x = m; y = 0; break;
            case 1: x = 0; y = m; break;
            case 2: x = -m; y = 0; break;
            case 3: x = 0; y = -m; break;
            case 4: x = m; y = m; break;
            case 5: x = -m; y = m; break;
            case 6: x = -m; y = -m; break;
            default: x = m; y = -m;
        }
    }
    void delta3(int64_t& x, int64_t& y) {
        uint64_t v = uint();
        octant((int)(v & 7), (int64_t)(v >> 3), x, y);
    }
    void deltag(int64_t& x, int64_t& y) {
        uint64_t v = uint();
        if (!(v & 1)) {
            octant((int)((v >> 1) & 7), (int64_t)(v >> 4), x, y);
        } else {
            x = (int64_t)(v >> 2);
            if (v & 2) x = -x;
            y = sint();
        }
    }
};

bool is_nstring(const std::string& s) {
    if (s.empty()) return false;
    for (unsigned char c : s)
        if (c < 0x21 || c > 0x7E) return false;
    return true;
}
bool is_astring(const std::string& s) {
    for (unsigned char c : s)
        if (c < 0x20 || c > 0x7E) return false;
    return true;
}

struct NameTable {
    std::map<uint64_t, std::string> names;
    std::map<uint64_t, std::vector<model::MProp>> props;
    uint64_t next_implicit = 0;
    int mode = 0;  // 0 unknown, 1 implicit, 2 explicit
};

struct Modal {
    bool rep = false, layer = false, datatype = false, textlayer = false, texttype = false, text = false, cell = false,
         gw = false, gh = false, polygon = false, path_hw = false, path_pts = false, ext_s = false, ext_e = false,
         ctrap = false, radius = false, propname = false, propvals = false;
    model::MRep repetition;
    uint32_t v_layer = 0, v_datatype = 0, v_textlayer = 0, v_texttype = 0;
    std::string v_text, v_cell;
    int64_t px = 0, py = 0, tx = 0, ty = 0, gx = 0, gy = 0;
    bool absolute = true;
    int64_t v_gw = 0, v_gh = 0, v_hw = 0, v_exts = 0, v_exte = 0, v_radius = 0;
    uint8_t v_ctrap = 0;
    std::vector<std::pair<int64_t, int64_t>> v_polygon, v_path;  // deltas from the first point (cumulative positions)
    std::string v_propname;
    std::vector<model::MVal> v_propvals;
};

struct Dec {
    const std::vector<uint8_t>& bytes;
    Decoded d;
    bool strict_failed = false;
    Modal m;
    NameTable cellnames, textstrings, propnames, propstrings;
    std::vector<model::MProp>* prop_target = nullptr;
    std::vector<model::MProp> layer_name_props;  // properties of LAYERNAME records: read, not part of the layout
    model::MCell* cell = nullptr;
    int table_last_kind = -1;          // kind of the previous top-level record when it was a name record
    bool seen_end = false;
    int depth = 0;

    explicit Dec(const std::vector<uint8_t>& b) : bytes(b) {}

    void strict(const std::string& msg, uint64_t off) {
        if (!strict_failed) {
            strict_failed = true;
            d.error = msg + " at offset " + std::to_string(off);
        }
    }

    static std::string placeholder(uint64_t n) { return std::string("\x01#") + std::to_string(n); }

    model::MRep repetition(Rd& r, uint64_t off) {
        uint64_t t = r.uint();
        if (t < 12) d.census.repetition[t]++;
        if (t == 0) {
            if (!m.rep) strict("repetition type 0 before any repetition was defined", off);
            d.census.modal_reuse++;
            return m.repetition;
        }
        model::MRep rep;
        switch (t) {
            case 1: {
                rep.type = model::REP_RECT;
                rep.cols = r.uint() + 2;
                rep.rows = r.uint() + 2;
                rep.sp.x = (dg_t)r.uint() * 10;
                rep.sp.y = (dg_t)r.uint() * 10;
            } break;
            case 2: {
                rep.type = model::REP_RECT;
                rep.cols = r.uint() + 2;
                rep.rows = 1;
                rep.sp.x = (dg_t)r.uint() * 10;
            } break;
            case 3: {
                rep.type = model::REP_RECT;
                rep.cols = 1;
                rep.rows = r.uint() + 2;
                rep.sp.y = (dg_t)r.uint() * 10;
            } break;
            case 4: case 5: case 6: case 7: {
                rep.type = (t <= 5) ? model::REP_EX : model::REP_EY;
                uint64_t n = r.uint() + 2;
                uint64_t grid = (t == 5 || t == 7) ? r.uint() : 1;
                dg_t acc = 0;
                for (uint64_t i = 1; i < n; i++) {
                    acc += (dg_t)(r.uint() * grid) * 10;
                    rep.coords.push_back(acc);
                }
            } break;
            case 8: {
                rep.type = model::REP_REGULAR;
                rep.cols = r.uint() + 2;
                rep.rows = r.uint() + 2;
                int64_t x, y;
                r.deltag(x, y);
                rep.v1 = Pt{x * 10, y * 10};
                r.deltag(x, y);
                rep.v2 = Pt{x * 10, y * 10};
            } break;
            case 9: {
                rep.type = model::REP_REGULAR;
                rep.cols = r.uint() + 2;
                rep.rows = 1;
                int64_t x, y;
                r.deltag(x, y);
                rep.v1 = Pt{x * 10, y * 10};
            } break;
            case 10: case 11: {
                rep.type = model::REP_EXPLICIT;
                uint64_t n = r.uint() + 2;
                uint64_t grid = t == 11 ? r.uint() : 1;
                int64_t ax = 0, ay = 0;
                for (uint64_t i = 1; i < n; i++) {
                    int64_t x, y;
                    r.deltag(x, y);
                    ax += x * (int64_t)grid;
                    ay += y * (int64_t)grid;
                    rep.offs.push_back(Pt{ax * 10, ay * 10});
                }
            } break;
            default: throw Failure{"unknown repetition type " + std::to_string(t)};
        }
        m.repetition = rep;
        m.rep = true;
        return rep;
    }

    // returns positions relative to the first point (first point itself not included)
    std::vector<std::pair<int64_t, int64_t>> point_list(Rd& r, bool closed, uint64_t off) {
        uint64_t t = r.uint();
        uint64_t n = r.uint();
        if (t < 6) d.census.pointlist[t]++;
        std::vector<std::pair<int64_t, int64_t>> out;
        int64_t x = 0, y = 0;
        switch (t) {
            case 0: case 1: {
                bool horiz = t == 0;
                for (uint64_t i = 0; i < n; i++) {
                    int64_t v = r.sint();
                    if (horiz)
                        x += v;
                    else
                        y += v;
                    horiz = !horiz;
                    out.push_back({x, y});
                }
                if (closed) {
                    if (n < 2 || n % 2) strict("manhattan polygon point list with an odd or too small count", off);
                    // the closing vertex returns to the first point's x or y
                    if (horiz)
                        out.push_back({0, y});
                    else
                        out.push_back({x, 0});
                }
            } break;
            case 2:
                for (uint64_t i = 0; i < n; i++) {
                    int64_t dx, dy;
                    r.delta2(dx, dy);
                    x += dx;
                    y += dy;
                    out.push_back({x, y});
                }
                break;
            case 3:
                for (uint64_t i = 0; i < n; i++) {
                    int64_t dx, dy;
                    r.delta3(dx, dy);
                    x += dx;
                    y += dy;
                    out.push_back({x, y});
                }
                break;
            case 4:
                for (uint64_t i = 0; i < n; i++) {
                    int64_t dx, dy;
                    r.deltag(dx, dy);
                    x += dx;
                    y += dy;
                    out.push_back({x, y});
                }
                break;
            case 5: {
                int64_t ddx = 0, ddy = 0;
                for (uint64_t i = 0; i < n; i++) {
                    int64_t dx, dy;
                    r.deltag(dx, dy);
                    ddx += dx;
                    ddy += dy;
                    x += ddx;
                    y += ddy;
                    out.push_back({x, y});
                }
            } break;
            default: throw Failure{"unknown point list type " + std::to_string(t)};
        }
        return out;
    }

    void xy(Rd& r, bool hx, bool hy, int64_t& mx, int64_t& my) {
        if (hx) {
            int64_t v = r.sint();
            mx = m.absolute ? v : mx + v;
        }
        if (hy) {
            int64_t v = r.sint();
            my = m.absolute ? v : my + v;
        }
    }

    void need_cell(uint64_t off) {
        if (!cell) throw Failure{"element record outside of a cell at offset " + std::to_string(off)};
    }

    void layer_datatype(Rd& r, uint8_t info, uint64_t off) {
        if (info & 0x01) {
            m.v_layer = (uint32_t)r.uint();
            m.layer = true;
        } else {
            if (!m.layer) strict("layer modal variable used before definition", off);
            d.census.modal_reuse++;
        }
        if (info & 0x02) {
            m.v_datatype = (uint32_t)r.uint();
            m.datatype = true;
        } else {
            if (!m.datatype) strict("datatype modal variable used before definition", off);
            d.census.modal_reuse++;
        }
    }

    void name_record(Rd& r, uint8_t id, uint64_t off) {
        int kind = (id - 3) / 2;  // 0 cellname, 1 textstring, 2 propname, 3 propstring
        bool explicit_num = ((id - 3) % 2) == 1;
        NameTable& t = kind == 0 ? cellnames : kind == 1 ? textstrings : kind == 2 ? propnames : propstrings;
        std::string s = r.str();
        uint64_t num;
        if (explicit_num) {
            num = r.uint();
            if (t.mode == 1) strict("implicit and explicit reference numbers mixed in one name table", off);
            t.mode = 2;
        } else {
            num = t.next_implicit++;
            if (t.mode == 2) strict("implicit and explicit reference numbers mixed in one name table", off);
            t.mode = 1;
        }
        if (t.names.count(num)) strict("reference number assigned twice", off);
        t.names[num] = s;
        if ((kind == 0 || kind == 2) && !is_nstring(s)) strict("name is not an n-string", off);
        if (kind == 1 && !is_astring(s)) strict("text string is not an a-string", off);
        if (s.size() > d.max_string) d.max_string = s.size();
        prop_target = &t.props[num];
        if (r.top) {
            if (d.first_record_offset[kind] == 0) {
                d.first_record_offset[kind] = r.base + off;
            } else if (table_last_kind != kind) {
                d.table_contiguous[kind] = false;
            }
            table_last_kind = kind;
        } else {
            if (d.first_record_offset[kind] == 0) d.first_record_offset[kind] = UINT64_MAX;  // inside a CBLOCK
        }
    }

    void property(Rd& r, uint8_t id, uint64_t off) {
        d.census.property++;
        model::MProp p;
        uint8_t info = id == 29 ? 0 : r.byte();
        if (id == 29) {
            if (!m.propname || !m.propvals) strict("PROPERTY repeat before any property", off);
            p.name = m.v_propname;
            p.vals = m.v_propvals;
            d.census.modal_reuse++;
        } else {
            if (info & 0x04) {
                if (info & 0x02) {
                    p.name = placeholder(r.uint());
                } else {
                    p.name = r.str();
                    if (!is_nstring(p.name)) strict("property name is not an n-string", off);
                }
                m.v_propname = p.name;
                m.propname = true;
            } else {
                if (!m.propname) strict("property name modal variable used before definition", off);
                p.name = m.v_propname;
                d.census.modal_reuse++;
            }
            if (info & 0x08) {
                if (info & 0xF0) strict("PROPERTY with V=1 and a non-zero value count", off);
                if (!m.propvals) strict("property value list modal variable used before definition", off);
                p.vals = m.v_propvals;
                d.census.modal_reuse++;
            } else {
                uint64_t n = info >> 4;
                if (n == 15) n = r.uint();
                for (uint64_t i = 0; i < n; i++) {
                    uint64_t t = r.uint();
                    model::MVal v;
                    if (t <= 7) {
                        v.kind = 2;
                        v.r = r.real_of(t);
                    } else if (t == 8) {
                        v.kind = 0;
                        v.u = r.uint();
                    } else if (t == 9) {
                        v.kind = 1;
                        v.i = r.sint();
                    } else if (t >= 10 && t <= 12) {
                        v.kind = 3;
                        v.s = r.str();
                        if (t == 10 && !is_astring(v.s)) strict("a-string property value with other characters", off);
                        if (t == 12 && !is_nstring(v.s)) strict("n-string property value with other characters", off);
                        if (v.s.size() > d.max_string) d.max_string = v.s.size();
                    } else if (t >= 13 && t <= 15) {
                        v.kind = 4;  // string by reference number, resolved at END (a b-string may hold any bytes:
                        v.u = r.uint();  // an in-band placeholder could collide with a real value)
                        v.i = (int64_t)t;  // the character class the reference declares (13 a-, 14 b-, 15 n-string)
                    } else {
                        throw Failure{"unknown property value type " + std::to_string(t)};
                    }
                    p.vals.push_back(v);
                }
                m.v_propvals = p.vals;
                m.propvals = true;
            }
        }
        if (!prop_target) throw Failure{"PROPERTY record with nothing to attach to"};
        prop_target->push_back(p);
    }

    std::vector<Pt> shape_points(const std::vector<std::pair<int64_t, int64_t>>& rel, int64_t x, int64_t y) {
        std::vector<Pt> v;
        v.push_back(Pt{x * 10, y * 10});
        for (auto& q : rel) v.push_back(Pt{(x + q.first) * 10, (y + q.second) * 10});
        return v;
    }

    void records(Rd& r) {
        while (r.pos < r.n) {
            uint64_t off = r.pos;
            uint8_t id = r.byte();
            if (seen_end) throw Failure{"data after the END record"};
            // properties of a name record belong to its table entry; PAD is transparent
            if (!(id >= 3 && id <= 10) && id != 28 && id != 29 && id != 0 && r.top) table_last_kind = -1;
            switch (id) {
                case 0: d.census.pad++; break;
                case 1: throw Failure{"second START record"};
                case 2: {
                    if (!r.top) throw Failure{"END record inside a CBLOCK"};
                    d.end_offset = r.base + off;
                    if (d.offsets_in_end)
                        for (int i = 0; i < 6; i++) {
                            d.table_flag[i] = r.uint();
                            d.table_offset[i] = r.uint();
                        }
                    std::string pad = r.str();
                    (void)pad;
                    uint64_t scheme = r.uint();
                    if (scheme > 2) throw Failure{"unknown validation scheme"};
                    d.validation = (int)scheme;
                    size_t sig_at = r.pos;
                    if (scheme) {
                        uint32_t v = 0;
                        for (int i = 0; i < 4; i++) v |= (uint32_t)r.byte() << (8 * i);
                        d.stored_signature = v;
                        if (scheme == 1) {
                            d.computed_signature = crc32(bytes.data(), r.base + sig_at);
                        } else {
                            uint32_t sum = 0;
                            for (size_t i = 0; i < r.base + sig_at; i++) sum += bytes[i];
                            d.computed_signature = sum;
                        }
                        if (d.computed_signature != d.stored_signature) strict("validation signature does not match the file bytes", r.base + sig_at);
                    }
                    if (r.pos - off != 256) strict("END record is " + std::to_string(r.pos - off) + " bytes long instead of 256", r.base + off);
                    seen_end = true;
                } break;
                case 3: case 4: case 5: case 6: case 7: case 8: case 9: case 10: name_record(r, id, off); break;
                case 11: case 12: {
                    r.str();
                    for (int i = 0; i < 2; i++) {
                        uint64_t t = r.uint();
                        if (t > 4) throw Failure{"bad LAYERNAME interval type"};
                        if (t > 0) {
                            if (t == 4) r.uint();
                            r.uint();
                        }
                    }
                    prop_target = &layer_name_props;
                } break;
                case 13: case 14: {
                    d.lib.cells.emplace_back();
                    cell = &d.lib.cells.back();
                    CellFacts f;
                    f.offset = r.top ? r.base + off : 0;
                    f.in_cblock = !r.top;
                    if (id == 13) {
                        cell->name = placeholder(r.uint());
                    } else {
                        cell->name = r.str();
                        if (!is_nstring(cell->name)) strict("cell name is not an n-string", off);
                    }
                    d.cells.push_back(f);
                    m.px = m.py = m.tx = m.ty = m.gx = m.gy = 0;
                    m.absolute = true;
                    prop_target = &cell->props;
                } break;
                case 15: m.absolute = true; break;
                case 16:
                    m.absolute = false;
                    d.census.xyrelative++;
                    break;
                case 17: case 18: {
                    need_cell(off);
                    uint8_t info = r.byte();
                    model::MRef ref;
                    ref.how = 1;
                    if (info & 0x80) {
                        if (info & 0x40)
                            m.v_cell = placeholder(r.uint());
                        else {
                            m.v_cell = r.str();
                            if (!is_nstring(m.v_cell)) strict("placement cell name is not an n-string", off);
                        }
                        m.cell = true;
                    } else {
                        if (!m.cell) strict("placement-cell modal variable used before definition", off);
                        d.census.modal_reuse++;
                    }
                    ref.target = m.v_cell;
                    if (id == 17) {
                        ref.rot_deg = 90.0 * ((info >> 1) & 3);
                        d.census.placement++;
                    } else {
                        if (info & 0x04) ref.mag = r.real();
                        if (info & 0x02) ref.rot_deg = r.real();
                        d.census.placement_t++;
                    }
                    ref.xrefl = info & 0x01;
                    xy(r, info & 0x20, info & 0x10, m.px, m.py);
                    if (!(info & 0x20) || !(info & 0x10)) d.census.modal_reuse++;
                    ref.origin = Pt{m.px * 10, m.py * 10};
                    if (info & 0x08) ref.rep = repetition(r, off);
                    cell->refs.push_back(ref);
                    prop_target = &cell->refs.back().props;
                } break;
                case 19: {
                    need_cell(off);
                    uint8_t info = r.byte();
                    if (info & 0x80) strict("reserved bit set in TEXT info byte", off);
                    model::MLabel l;
                    if (info & 0x40) {
                        if (info & 0x20)
                            m.v_text = placeholder(r.uint());
                        else {
                            m.v_text = r.str();
                            if (!is_astring(m.v_text)) strict("text is not an a-string", off);
                        }
                        m.text = true;
                    } else {
                        if (!m.text) strict("text-string modal variable used before definition", off);
                        d.census.modal_reuse++;
                    }
                    l.text = m.v_text;
                    if (info & 0x01) {
                        m.v_textlayer = (uint32_t)r.uint();
                        m.textlayer = true;
                    } else if (!m.textlayer)
                        strict("textlayer modal variable used before definition", off);
                    if (info & 0x02) {
                        m.v_texttype = (uint32_t)r.uint();
                        m.texttype = true;
                    } else if (!m.texttype)
                        strict("texttype modal variable used before definition", off);
                    l.layer = m.v_textlayer;
                    l.ttype = m.v_texttype;
                    xy(r, info & 0x10, info & 0x08, m.tx, m.ty);
                    l.origin = Pt{m.tx * 10, m.ty * 10};
                    l.anchor = 8;
                    if (info & 0x04) l.rep = repetition(r, off);
                    cell->labels.push_back(l);
                    d.census.text++;
                    prop_target = &cell->labels.back().props;
                } break;
                case 20: {
                    need_cell(off);
                    uint8_t info = r.byte();
                    layer_datatype(r, info, off);
                    if (info & 0x40) {
                        m.v_gw = (int64_t)r.uint();
                        m.gw = true;
                    } else if (!m.gw)
                        strict("geometry-w modal variable used before definition", off);
                    if (info & 0x80) {
                        if (info & 0x20) strict("square RECTANGLE with an explicit height", off);
                        m.v_gh = m.v_gw;
                        m.gh = true;
                        d.census.square++;
                    } else if (info & 0x20) {
                        m.v_gh = (int64_t)r.uint();
                        m.gh = true;
                    } else if (!m.gh)
                        strict("geometry-h modal variable used before definition", off);
                    xy(r, info & 0x10, info & 0x08, m.gx, m.gy);
                    model::MPoly p;
                    p.layer = m.v_layer;
                    p.dtype = m.v_datatype;
                    int64_t x = m.gx, y = m.gy, w = m.v_gw, h = m.v_gh;
                    p.pts = {Pt{x * 10, y * 10}, Pt{(x + w) * 10, y * 10}, Pt{(x + w) * 10, (y + h) * 10}, Pt{x * 10, (y + h) * 10}};
                    if (info & 0x04) p.rep = repetition(r, off);
                    cell->polys.push_back(p);
                    d.census.rectangle++;
                    prop_target = &cell->polys.back().props;
                } break;
                case 21: {
                    need_cell(off);
                    uint8_t info = r.byte();
                    if (info & 0xC0) strict("reserved bits set in POLYGON info byte", off);
                    layer_datatype(r, info, off);
                    if (info & 0x20) {
                        m.v_polygon = point_list(r, true, off);
                        m.polygon = true;
                    } else {
                        if (!m.polygon) strict("polygon-point-list modal variable used before definition", off);
                        d.census.modal_reuse++;
                    }
                    xy(r, info & 0x10, info & 0x08, m.gx, m.gy);
                    model::MPoly p;
                    p.layer = m.v_layer;
                    p.dtype = m.v_datatype;
                    p.pts = shape_points(m.v_polygon, m.gx, m.gy);
                    if (p.pts.size() > d.max_polygon_vertices) d.max_polygon_vertices = p.pts.size();
                    if (info & 0x04) p.rep = repetition(r, off);
                    cell->polys.push_back(p);
                    d.census.polygon++;
                    prop_target = &cell->polys.back().props;
                } break;
                case 22: {
                    need_cell(off);
                    uint8_t info = r.byte();
                    layer_datatype(r, info, off);
                    if (info & 0x40) {
                        m.v_hw = (int64_t)r.uint();
                        m.path_hw = true;
                    } else if (!m.path_hw)
                        strict("path-halfwidth modal variable used before definition", off);
                    if (info & 0x80) {
                        uint64_t scheme = r.uint();
                        if (scheme > 15) strict("reserved bits set in path extension scheme", off);
                        switch ((scheme >> 2) & 3) {
                            case 0:
                                if (!m.ext_s) strict("path-start-extension modal variable used before definition", off);
                                break;
                            case 1: m.v_exts = 0; m.ext_s = true; break;
                            case 2: m.v_exts = m.v_hw; m.ext_s = true; break;
                            default: m.v_exts = r.sint(); m.ext_s = true;
                        }
                        switch (scheme & 3) {
                            case 0:
                                if (!m.ext_e) strict("path-end-extension modal variable used before definition", off);
                                break;
                            case 1: m.v_exte = 0; m.ext_e = true; break;
                            case 2: m.v_exte = m.v_hw; m.ext_e = true; break;
                            default: m.v_exte = r.sint(); m.ext_e = true;
                        }
                    } else if (!m.ext_s || !m.ext_e) {
                        strict("path extension modal variables used before definition", off);
                    }
                    if (info & 0x20) {
                        m.v_path = point_list(r, false, off);
                        m.path_pts = true;
                    } else {
                        if (!m.path_pts) strict("path-point-list modal variable used before definition", off);
                        d.census.modal_reuse++;
                    }
                    xy(r, info & 0x10, info & 0x08, m.gx, m.gy);
                    model::MPath p;
                    p.layer = m.v_layer;
                    p.dtype = m.v_datatype;
                    p.spine = shape_points(m.v_path, m.gx, m.gy);
                    if (p.spine.size() > d.max_path_vertices) d.max_path_vertices = p.spine.size();
                    p.hw = m.v_hw * 10;
                    p.end = model::END_EXT;
                    p.eu = m.v_exts * 10;
                    p.ev = m.v_exte * 10;
                    if (info & 0x04) p.rep = repetition(r, off);
                    cell->paths.push_back(p);
                    d.census.path++;
                    prop_target = &cell->paths.back().props;
                } break;
                case 23: case 24: case 25: {
                    need_cell(off);
                    uint8_t info = r.byte();
                    layer_datatype(r, info, off);
                    if (info & 0x40) {
                        m.v_gw = (int64_t)r.uint();
                        m.gw = true;
                    } else if (!m.gw)
                        strict("geometry-w modal variable used before definition", off);
                    if (info & 0x20) {
                        m.v_gh = (int64_t)r.uint();
                        m.gh = true;
                    } else if (!m.gh)
                        strict("geometry-h modal variable used before definition", off);
                    int64_t da = 0, db = 0;
                    if (id == 23) {
                        da = r.sint();
                        db = r.sint();
                    } else if (id == 24) {
                        da = r.sint();
                    } else {
                        db = r.sint();
                    }
                    xy(r, info & 0x10, info & 0x08, m.gx, m.gy);
                    int64_t x = m.gx, y = m.gy, w = m.v_gw, h = m.v_gh;
                    model::MPoly p;
                    p.layer = m.v_layer;
                    p.dtype = m.v_datatype;
                    auto P = [&](int64_t px, int64_t py) { p.pts.push_back(Pt{px * 10, py * 10}); };
                    if (info & 0x80) {  // vertical: parallel edges are vertical
                        P(x, y + std::max<int64_t>(da, 0));
                        P(x, y + h + std::min<int64_t>(db, 0));
                        P(x + w, y + h - std::max<int64_t>(db, 0));
                        P(x + w, y - std::min<int64_t>(da, 0));
                    } else {
                        P(x + std::max<int64_t>(da, 0), y + h);
                        P(x + w + std::min<int64_t>(db, 0), y + h);
                        P(x + w - std::max<int64_t>(db, 0), y);
                        P(x - std::min<int64_t>(da, 0), y);
                    }
                    if (info & 0x04) p.rep = repetition(r, off);
                    cell->polys.push_back(p);
                    d.census.trapezoid++;
                    prop_target = &cell->polys.back().props;
                } break;
                case 26: {
                    need_cell(off);
                    uint8_t info = r.byte();
                    layer_datatype(r, info, off);
                    if (info & 0x80) {
                        m.v_ctrap = (uint8_t)r.uint();
                        m.ctrap = true;
                    } else if (!m.ctrap)
                        strict("ctrapezoid-type modal variable used before definition", off);
                    if (m.v_ctrap > 25) throw Failure{"unknown CTRAPEZOID type"};
                    if (info & 0x40) {
                        m.v_gw = (int64_t)r.uint();
                        m.gw = true;
                    }
                    if (info & 0x20) {
                        m.v_gh = (int64_t)r.uint();
                        m.gh = true;
                    }
                    xy(r, info & 0x10, info & 0x08, m.gx, m.gy);
                    int t = m.v_ctrap;
                    bool need_w = !(t == 20 || t == 21), need_h = t < 16 || t == 20 || t == 21 || t == 24;
                    if (need_w && !m.gw) strict("geometry-w modal variable used before definition", off);
                    if (need_h && !m.gh) strict("geometry-h modal variable used before definition", off);
                    int64_t w = m.v_gw, h = m.v_gh;
                    std::vector<std::pair<int64_t, int64_t>> v;
                    switch (t) {
                        case 0: v = {{0, 0}, {w, 0}, {w - h, h}, {0, h}}; break;
                        case 1: v = {{0, 0}, {w - h, 0}, {w, h}, {0, h}}; break;
                        case 2: v = {{0, 0}, {w, 0}, {w, h}, {h, h}}; break;
                        case 3: v = {{h, 0}, {w, 0}, {w, h}, {0, h}}; break;
                        case 4: v = {{0, 0}, {w, 0}, {w - h, h}, {h, h}}; break;
                        case 5: v = {{h, 0}, {w - h, 0}, {w, h}, {0, h}}; break;
                        case 6: v = {{0, 0}, {w - h, 0}, {w, h}, {h, h}}; break;
                        case 7: v = {{h, 0}, {w, 0}, {w - h, h}, {0, h}}; break;
                        case 8: v = {{0, 0}, {w, 0}, {w, h - w}, {0, h}}; break;
                        case 9: v = {{0, 0}, {w, 0}, {w, h}, {0, h - w}}; break;
                        case 10: v = {{0, 0}, {w, w}, {w, h}, {0, h}}; break;
                        case 11: v = {{0, w}, {w, 0}, {w, h}, {0, h}}; break;
                        case 12: v = {{0, 0}, {w, w}, {w, h - w}, {0, h}}; break;
                        case 13: v = {{0, w}, {w, 0}, {w, h}, {0, h - w}}; break;
                        case 14: v = {{0, 0}, {w, w}, {w, h}, {0, h - w}}; break;
                        case 15: v = {{0, w}, {w, 0}, {w, h - w}, {0, h}}; break;
                        case 16: v = {{0, 0}, {w, 0}, {0, w}}; break;
                        case 17: v = {{0, 0}, {w, w}, {0, w}}; break;
                        case 18: v = {{0, 0}, {w, 0}, {w, w}}; break;
                        case 19: v = {{w, 0}, {w, w}, {0, w}}; break;
                        case 20: v = {{0, 0}, {2 * h, 0}, {h, h}}; break;
                        case 21: v = {{0, h}, {h, 0}, {2 * h, h}}; break;
                        case 22: v = {{0, 0}, {w, w}, {0, 2 * w}}; break;
                        case 23: v = {{w, 0}, {w, 2 * w}, {0, w}}; break;
                        case 24: v = {{0, 0}, {w, 0}, {w, h}, {0, h}}; break;
                        default: v = {{0, 0}, {w, 0}, {w, w}, {0, w}};
                    }
                    // the types that fix one dimension also update the other modal variable
                    if (t >= 16 && t <= 19) { m.v_gh = w; m.gh = true; }
                    if (t == 20 || t == 21) { m.v_gw = 2 * h; m.gw = true; }
                    if (t == 22 || t == 23) { m.v_gh = 2 * w; m.gh = true; }
                    if (t == 25) { m.v_gh = w; m.gh = true; }
                    model::MPoly p;
                    p.layer = m.v_layer;
                    p.dtype = m.v_datatype;
                    for (auto& q : v) p.pts.push_back(Pt{(m.gx + q.first) * 10, (m.gy + q.second) * 10});
                    if (info & 0x04) p.rep = repetition(r, off);
                    cell->polys.push_back(p);
                    d.census.ctrapezoid++;
                    d.census.ctrap_type[t]++;
                    prop_target = &cell->polys.back().props;
                } break;
                case 27: {
                    need_cell(off);
                    uint8_t info = r.byte();
                    if (info & 0xC0) strict("reserved bits set in CIRCLE info byte", off);
                    layer_datatype(r, info, off);
                    if (info & 0x20) {
                        m.v_radius = (int64_t)r.uint();
                        m.radius = true;
                    } else if (!m.radius)
                        strict("circle-radius modal variable used before definition", off);
                    xy(r, info & 0x10, info & 0x08, m.gx, m.gy);
                    model::MPoly p;
                    p.layer = m.v_layer;
                    p.dtype = m.v_datatype;
                    p.hint = 1;
                    p.ccenter = Pt{m.gx * 10, m.gy * 10};
                    p.cradius = m.v_radius * 10;
                    int n = 64;
                    for (int i = 0; i < n; i++) {
                        dg_t px = p.ccenter.x + (dg_t)llround(p.cradius * cos(2 * M_PI * i / n));
                        dg_t py = p.ccenter.y + (dg_t)llround(p.cradius * sin(2 * M_PI * i / n));
                        if (llabs(px % 10) == 5) px++;
                        if (llabs(py % 10) == 5) py++;
                        p.pts.push_back(Pt{px, py});
                    }
                    if (info & 0x04) p.rep = repetition(r, off);
                    cell->polys.push_back(p);
                    d.census.circle++;
                    prop_target = &cell->polys.back().props;
                } break;
                case 28: case 29: property(r, id, off); break;
                case 30: case 31: case 32: case 33: throw Failure{"X-records are not expected in these files"};
                case 34: {
                    if (!r.top) throw Failure{"nested CBLOCK"};
                    uint64_t type = r.uint();
                    if (type != 0) throw Failure{"unknown CBLOCK compression type"};
                    uint64_t ulen = r.uint(), clen = r.uint();
                    if (clen > r.n - r.pos) throw Failure{"CBLOCK extends past end of file"};
                    if (ulen > (1ull << 31)) throw Failure{"CBLOCK too large"};
                    std::vector<uint8_t> buf((size_t)ulen ? (size_t)ulen : 1);
                    z_stream z;
                    memset(&z, 0, sizeof z);
                    if (inflateInit2(&z, -15) != Z_OK) throw Failure{"zlib init"};
                    z.next_in = (Bytef*)(r.p + r.pos);
                    z.avail_in = (uInt)clen;
                    z.next_out = buf.data();
                    z.avail_out = (uInt)ulen;
                    int rc = inflate(&z, Z_FINISH);
                    uint64_t got = z.total_out;
                    uint64_t used = z.total_in;
                    inflateEnd(&z);
                    if (rc != Z_STREAM_END || got != ulen) throw Failure{"CBLOCK does not inflate to the declared size"};
                    if (used != clen) strict("CBLOCK compressed size is larger than the deflate stream", r.base + off);
                    r.pos += (size_t)clen;
                    d.census.cblock++;
                    Rd inner{buf.data(), (size_t)ulen};
                    inner.top = false;
                    records(inner);
                } break;
                default: throw Failure{"unknown record id " + std::to_string(id)};
            }
        }
    }

    std::string resolve(const std::string& s, NameTable& t, const char* what) {
        if (s.size() >= 2 && s[0] == '\x01' && s[1] == '#') {
            uint64_t n = strtoull(s.c_str() + 2, nullptr, 10);
            auto it = t.names.find(n);
            if (it == t.names.end()) {
                strict(std::string("unresolved ") + what + " reference number " + std::to_string(n), d.end_offset);
                return std::string("?") + what + std::to_string(n);
            }
            return it->second;
        }
        return s;
    }

    void resolve_props(std::vector<model::MProp>& ps) {
        for (auto& p : ps) {
            p.name = resolve(p.name, propnames, "property name");
            for (auto& v : p.vals)
                if (v.kind == 4) {
                    v.kind = 3;
                    v.s = resolve(placeholder(v.u), propstrings, "property string");
                    if (v.i == 13 && !is_astring(v.s)) strict("property string referenced as an a-string holds other characters", d.end_offset);
                    if (v.i == 15 && !is_nstring(v.s)) strict("property string referenced as an n-string holds other characters", d.end_offset);
                    v.u = 0;
                    v.i = 0;
                }
        }
    }

    void finish() {
        for (size_t i = 0; i < d.lib.cells.size(); i++) {
            model::MCell& c = d.lib.cells[i];
            std::string raw = c.name;
            c.name = resolve(c.name, cellnames, "cell name");
            d.cells[i].name = c.name;
            // properties of the CELLNAME record belong to the cell
            for (auto& kv : cellnames.names)
                if (kv.second == c.name && cellnames.props.count(kv.first)) {
                    d.cells[i].name_props = cellnames.props[kv.first];
                    resolve_props(d.cells[i].name_props);
                }
            resolve_props(c.props);
            for (auto& p : c.polys) resolve_props(p.props);
            for (auto& p : c.paths) resolve_props(p.props);
            for (auto& l : c.labels) {
                // properties of a TEXTSTRING record are shared by every text that uses it by number: they count
                // as the first properties of each of those labels (how gdstk models them)
                if (l.text.size() >= 2 && l.text[0] == '\x01' && l.text[1] == '#') {
                    uint64_t n = strtoull(l.text.c_str() + 2, nullptr, 10);
                    auto it = textstrings.props.find(n);
                    if (it != textstrings.props.end()) l.props.insert(l.props.begin(), it->second.begin(), it->second.end());
                }
                l.text = resolve(l.text, textstrings, "text string");
                resolve_props(l.props);
            }
            for (auto& r : c.refs) {
                r.target = resolve(r.target, cellnames, "cell name");
                resolve_props(r.props);
            }
        }
        resolve_props(d.file_props);
        d.lib.props = d.file_props;
    }
};

}  // namespace

Decoded decode(const std::vector<uint8_t>& bytes) {
    Dec D(bytes);
    Decoded& d = D.d;
    d.file_size = bytes.size();
    d.lib.unit = 1e-6;
    d.lib.name = "LIB";
    try {
        static const char magic[] = "%SEMI-OASIS\r\n";
        if (bytes.size() < 13 || memcmp(bytes.data(), magic, 13) != 0) throw Failure{"missing OASIS magic"};
        Rd r{bytes.data(), bytes.size()};
        r.pos = 13;
        if (r.byte() != 1) throw Failure{"START record expected after the magic"};
        std::string version = r.str();
        if (version != "1.0") D.strict("version string is not 1.0", 14);
        double unit = r.real();
        if (!(unit > 0)) throw Failure{"START unit is not positive"};
        d.lib.precision = 1e-6 / unit;
        uint64_t flag = r.uint();
        if (flag > 1) throw Failure{"bad offset-flag in START"};
        d.offsets_in_end = flag == 1;
        if (!d.offsets_in_end)
            for (int i = 0; i < 6; i++) {
                d.table_flag[i] = r.uint();
                d.table_offset[i] = r.uint();
            }
        D.prop_target = &d.file_props;
        D.records(r);
        if (!D.seen_end) throw Failure{"no END record"};
        D.finish();
        for (int k = 0; k < 4; k++) {
            if (d.table_offset[k] != 0) {
                if (d.first_record_offset[k] != d.table_offset[k])
                    D.strict("table offset " + std::to_string(d.table_offset[k]) + " does not point at the first record of its name table (" +
                                 std::to_string(d.first_record_offset[k]) + ")", d.end_offset);
                else if (d.table_flag[k] == 1 && !d.table_contiguous[k])
                    D.strict("strict table flag set but the name records are not contiguous", d.end_offset);
            } else if (d.table_flag[k] == 1 && d.first_record_offset[k] != 0) {
                D.strict("strict table flag with offset 0 although name records exist", d.end_offset);
            }
        }
        d.ok = true;
        d.strict_ok = !D.strict_failed;
    } catch (Failure& f) {
        d.ok = false;
        d.error = f.what;
    }
    return d;
}

}  // namespace oaspeer
