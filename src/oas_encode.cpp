// OASIS encoder of the peer tool: every legal way of saying the same layout, chosen by a seeded coin.
#include <math.h>
#include <string.h>
#include <zlib.h>

#include <algorithm>

#include "canon.hpp"
#include "oas_peer.hpp"

namespace oaspeer {

using model::dg_t;
using model::Pt;

Choices random_choices(sim::Rng& r) {
    Choices c;
    c.seed = r.next();
    c.cell_names = (int)r.below(3);
    c.explicit_numbers = r.chance(0.4);
    c.text_strings = (int)r.below(3);
    c.prop_names = (int)r.below(3);
    c.prop_strings = (int)r.below(3);
    static const double pm[] = {0.0, 0.3, 0.6, 0.9, 1.0};
    c.p_modal = pm[r.below(5)];
    c.p_relative = r.chance(0.5) ? 0.0 : 0.4;
    c.p_pad = r.chance(0.3) ? 0.1 : 0.0;
    c.cblock = (int)r.below(4);
    c.offsets_in_start = r.chance(0.3);
    c.validation = (int)r.below(3);
    c.strict_tables = r.chance(0.6);
    c.special_shapes = r.chance(0.7);
    c.general_reps = r.chance(0.3);
    c.unit_form = (double)r.below(3);
    c.shuffle = r.chance(0.5);
    c.cellname_props = r.chance(0.4);
    c.layernames = r.chance(0.2);
    c.hoist_text_props = r.chance(0.5);
    return c;
}

J to_json(const Choices& c) {
    J j = J::obj();
    j.set("seed", J::hex(c.seed));
    j.set("cell_names", c.cell_names);
    j.set("explicit_numbers", c.explicit_numbers);
    j.set("text_strings", c.text_strings);
    j.set("prop_names", c.prop_names);
    j.set("prop_strings", c.prop_strings);
    j.set("p_modal", c.p_modal);
    j.set("p_relative", c.p_relative);
    j.set("p_pad", c.p_pad);
    j.set("cblock", c.cblock);
    j.set("offsets_in_start", c.offsets_in_start);
    j.set("validation", c.validation);
    j.set("strict_tables", c.strict_tables);
    j.set("special_shapes", c.special_shapes);
    j.set("general_reps", c.general_reps);
    j.set("unit_form", c.unit_form);
    j.set("shuffle", c.shuffle);
    j.set("cellname_props", c.cellname_props);
    j.set("layernames", c.layernames);
    j.set("hoist_text_props", c.hoist_text_props);
    return j;
}

Choices choices_from(const J& j) {
    Choices c;
    c.seed = j.at("seed").as_hex();
    c.cell_names = (int)j.geti("cell_names");
    c.explicit_numbers = j.getb("explicit_numbers");
    c.text_strings = (int)j.geti("text_strings");
    c.prop_names = (int)j.geti("prop_names");
    c.prop_strings = (int)j.geti("prop_strings");
    c.p_modal = j.getd("p_modal", 0.5);
    c.p_relative = j.getd("p_relative", 0);
    c.p_pad = j.getd("p_pad", 0);
    c.cblock = (int)j.geti("cblock");
    c.offsets_in_start = j.getb("offsets_in_start");
    c.validation = (int)j.geti("validation");
    c.strict_tables = j.getb("strict_tables", true);
    c.special_shapes = j.getb("special_shapes", true);
    c.general_reps = j.getb("general_reps");
    c.unit_form = j.getd("unit_form");
    c.shuffle = j.getb("shuffle", true);
    c.cellname_props = j.getb("cellname_props");
    c.layernames = j.getb("layernames");
    c.hoist_text_props = j.getb("hoist_text_props");
    return c;
}

namespace {

typedef std::vector<uint8_t> Bytes;

struct W {
    Bytes b;
    void byte(uint8_t v) { b.push_back(v); }
    void uint(uint64_t v) {
        do {
            uint8_t x = v & 0x7F;
            v >>= 7;
            if (v) x |= 0x80;
            b.push_back(x);
        } while (v);
    }
    void sint(int64_t v) {
        uint64_t m = v < 0 ? (uint64_t)0 - (uint64_t)v : (uint64_t)v;  // (also right for the most negative value)
        uint64_t first = ((m & 0x3F) << 1) | (v < 0 ? 1 : 0);
        m >>= 6;
        if (m) first |= 0x80;
        b.push_back((uint8_t)first);
        while (m) {
            uint8_t x = m & 0x7F;
            m >>= 7;
            if (m) x |= 0x80;
            b.push_back(x);
        }
    }
    void str(const std::string& s) {
        uint(s.size());
        b.insert(b.end(), s.begin(), s.end());
    }
    void dirmag(uint64_t mag, unsigned dir, int bits) {  // value = mag << bits | dir
        // mag may need more than 64-bits after the shift only for absurd inputs; coordinates here are < 2^40
        uint((mag << bits) | dir);
    }
    void delta2(int64_t x, int64_t y) {
        unsigned dir = x > 0 ? 0 : (y > 0 ? 1 : (x < 0 ? 2 : (y < 0 ? 3 : 0)));
        dirmag((uint64_t)(llabs(x) + llabs(y)), dir, 2);
    }
    static int octant(int64_t x, int64_t y) {
        if (y == 0) return x >= 0 ? 0 : 2;
        if (x == 0) return y > 0 ? 1 : 3;
        if (x > 0) return y > 0 ? 4 : 7;
        return y > 0 ? 5 : 6;
    }
    void delta3(int64_t x, int64_t y) { dirmag((uint64_t)std::max(llabs(x), llabs(y)), (unsigned)octant(x, y), 3); }
    void deltag(int64_t x, int64_t y, bool general_form) {
        bool oct = x == 0 || y == 0 || llabs(x) == llabs(y);
        if (oct && !general_form) {
            uint64_t mag = (uint64_t)std::max(llabs(x), llabs(y));
            uint((mag << 4) | ((uint64_t)octant(x, y) << 1));
        } else {
            uint(((uint64_t)llabs(x) << 2) | (x < 0 ? 2 : 0) | 1);
            sint(y);
        }
    }
    void real(double v, int form, sim::Rng& r) {
        double a = fabs(v);
        bool whole = a == floor(a) && a < 9e15;
        bool recip = a != 0 && (1.0 / a) == floor(1.0 / a) && (1.0 / a) < 9e15 && 1.0 / (1.0 / a) == a;
        float f = (float)v;
        bool f32 = (double)f == v;
        // ratio: v == p / q exactly for some small q
        uint64_t rp = 0, rq = 0;
        for (uint64_t q = 2; q <= 64 && !rq; q++) {
            double p = a * (double)q;
            if (p == floor(p) && p < 9e15 && p / (double)q == a) {
                rp = (uint64_t)p;
                rq = q;
            }
        }
        int pick;
        if (form == 2) {
            pick = 7;
        } else if (form == 1 && rq) {
            pick = 4;
        } else if (whole) {
            pick = r.chance(0.8) ? 0 : (f32 && r.chance(0.5) ? 6 : 7);
        } else if (recip) {
            pick = r.chance(0.7) ? 2 : 7;
        } else if (rq && r.chance(0.4)) {
            pick = 4;
        } else {
            pick = f32 && r.chance(0.3) ? 6 : 7;
        }
        switch (pick) {
            case 0:
                uint(v < 0 ? 1 : 0);
                uint((uint64_t)a);
                break;
            case 2:
                uint(v < 0 ? 3 : 2);
                uint((uint64_t)(1.0 / a));
                break;
            case 4:
                uint(v < 0 ? 5 : 4);
                uint(rp);
                uint(rq);
                break;
            case 6: {
                uint(6);
                uint32_t u;
                memcpy(&u, &f, 4);
                for (int i = 0; i < 4; i++) byte((uint8_t)(u >> (8 * i)));
            } break;
            default: {
                uint(7);
                uint64_t u;
                memcpy(&u, &v, 8);
                for (int i = 0; i < 8; i++) byte((uint8_t)(u >> (8 * i)));
            }
        }
    }
};

struct Chunk {
    Bytes b;
    int kind;  // 0 cell record, 1 element/property inside a cell, 2 name record (+ its properties): table k = kind - 2 .. 5
    int table = -1;
};

bool rep_equal(const model::MRep& a, const model::MRep& b) {
    if (a.type != b.type) return false;
    auto peq = [](const Pt& p, const Pt& q) { return p.x == q.x && p.y == q.y; };
    switch (a.type) {
        case model::REP_RECT: return a.cols == b.cols && a.rows == b.rows && peq(a.sp, b.sp);
        case model::REP_REGULAR: return a.cols == b.cols && a.rows == b.rows && peq(a.v1, b.v1) && peq(a.v2, b.v2);
        case model::REP_EXPLICIT:
            if (a.offs.size() != b.offs.size()) return false;
            for (size_t i = 0; i < a.offs.size(); i++)
                if (!peq(a.offs[i], b.offs[i])) return false;
            return true;
        case model::REP_EX:
        case model::REP_EY: return a.coords == b.coords;
        default: return true;
    }
}

uint64_t rep_count(const model::MRep& r) { return canon::rep_offsets(r).size(); }

struct Enc {
    const model::MLib& m;
    Choices c;
    sim::Rng rng;
    EncodeInfo info;
    std::vector<Chunk> chunks;
    // name tables
    std::map<std::string, uint64_t> cell_num, text_num, pname_num, pstr_num;
    std::vector<std::string> cell_order, text_order, pname_order, pstr_order;
    // modal state (mirrors the format's rules)
    bool m_rep = false, m_layer = false, m_dt = false, m_tl = false, m_tt = false, m_text = false, m_cell = false, m_gw = false,
         m_gh = false, m_poly = false, m_hw = false, m_path = false, m_exts = false, m_exte = false, m_ctrap = false,
         m_radius = false, m_pname = false, m_pvals = false;
    model::MRep v_rep;
    uint32_t v_layer = 0, v_dt = 0, v_tl = 0, v_tt = 0;
    std::string v_text, v_cell, v_pname;
    std::vector<std::string> v_pvals;  // serialised value list for equality
    int64_t px = 0, py = 0, tx = 0, ty = 0, gx = 0, gy = 0;
    bool absolute = true;
    int64_t v_gw = 0, v_gh = 0, v_hw = 0, v_exts = 0, v_exte = 0, v_radius = 0;
    int v_ctrap = -1;
    std::vector<std::pair<int64_t, int64_t>> v_poly, v_path;
    std::map<std::string, std::vector<model::MProp>> name_record_props;

    Enc(const model::MLib& lib, const Choices& ch) : m(lib), c(ch), rng(ch.seed) {}

    bool omit() { return rng.chance(c.p_modal); }

    static int64_t g(dg_t v) { return v / 10; }

    uint64_t number(std::map<std::string, uint64_t>& tab, std::vector<std::string>& order, const std::string& s) {
        auto it = tab.find(s);
        if (it != tab.end()) return it->second;
        uint64_t n = order.size();
        tab[s] = n;
        order.push_back(s);
        return n;
    }

    // reference numbers are a permutation of 0..n-1 when explicit numbering is chosen
    uint64_t final_number(uint64_t n, size_t table_size_hint, int table) {
        (void)table_size_hint;
        if (!c.explicit_numbers) return n;
        return n * 3 + (uint64_t)table + 1;  // sparse explicit numbers; implicit numbering is not mixed in
    }

    void pad(std::vector<Chunk>& out, int kind) {
        if (c.p_pad > 0 && rng.chance(c.p_pad)) {
            Chunk ch;
            ch.kind = kind;
            ch.b.push_back(0);
            out.push_back(ch);
        }
    }

    // ------------------------------------------------------------- properties
    std::string val_key(const model::MVal& v) {
        char buf[64];
        switch (v.kind) {
            case 0: snprintf(buf, sizeof buf, "u%llu", (unsigned long long)v.u); return buf;
            case 1: snprintf(buf, sizeof buf, "i%lld", (long long)v.i); return buf;
            case 2: snprintf(buf, sizeof buf, "r%.17g", v.r); return buf;
            default: return "s" + v.s;
        }
    }

    void props(W& w, const std::vector<model::MProp>& ps) {
        for (auto& p : ps) {
            std::vector<std::string> keys;
            for (auto& v : p.vals) keys.push_back(val_key(v));
            bool same_name = m_pname && v_pname == p.name;
            bool same_vals = m_pvals && v_pvals == keys;
            if (same_name && same_vals && omit()) {
                w.byte(29);
                continue;
            }
            w.byte(28);
            bool standard = p.name.compare(0, 2, "S_") == 0;
            uint8_t info = standard ? 1 : 0;
            bool name_explicit = !(same_name && omit());
            bool by_num = c.prop_names != 0;
            if (name_explicit) info |= 0x04 | (by_num ? 0x02 : 0);
            bool reuse_vals = same_vals && omit();
            size_t n = p.vals.size();
            if (reuse_vals)
                info |= 0x08;
            else
                info |= (uint8_t)((n >= 15 ? 15 : n) << 4);
            w.byte(info);
            if (name_explicit) {
                if (by_num)
                    w.uint(final_number(number(pname_num, pname_order, p.name), 0, 2));
                else
                    w.str(p.name);
            }
            if (!reuse_vals) {
                if (n >= 15) w.uint(n);
                for (auto& v : p.vals) {
                    switch (v.kind) {
                        case 0:
                            w.uint(8);
                            w.uint(v.u);
                            break;
                        case 1:
                            w.uint(9);
                            w.sint(v.i);
                            break;
                        case 2: w.real(v.r, (int)c.unit_form, rng); break;
                        default: {
                            bool astr = true, nstr = !v.s.empty();
                            for (unsigned char ch : v.s) {
                                if (ch < 0x20 || ch > 0x7E) astr = nstr = false;
                                if (ch == 0x20) nstr = false;
                            }
                            int kind = nstr ? (rng.chance(0.7) ? 2 : (rng.chance(0.5) ? 0 : 1)) : (astr ? (rng.chance(0.7) ? 0 : 1) : 1);
                            // kind: 0 a-string, 1 b-string, 2 n-string
                            static const int inline_type[] = {10, 11, 12}, ref_type[] = {13, 14, 15};
                            if (c.prop_strings != 0) {
                                w.uint(ref_type[kind]);
                                w.uint(final_number(number(pstr_num, pstr_order, v.s), 0, 3));
                            } else {
                                w.uint(inline_type[kind]);
                                w.str(v.s);
                            }
                        }
                    }
                }
            }
            v_pname = p.name;
            m_pname = true;
            v_pvals = keys;
            m_pvals = true;
        }
    }

    // ------------------------------------------------------------- repetition
    void repetition(W& w, const model::MRep& r) {
        if (m_rep && rep_equal(v_rep, r) && omit()) {
            w.uint(0);
            return;
        }
        bool gen = c.general_reps;
        auto gd = [&](int64_t x, int64_t y) { w.deltag(x, y, rng.chance(0.2)); };
        switch (r.type) {
            case model::REP_RECT: {
                int64_t sx = g(r.sp.x), sy = g(r.sp.y);
                if (r.cols > 1 && r.rows > 1) {
                    if (sx >= 0 && sy >= 0 && !gen) {
                        w.uint(1);
                        w.uint(r.cols - 2);
                        w.uint(r.rows - 2);
                        w.uint((uint64_t)sx);
                        w.uint((uint64_t)sy);
                    } else {
                        w.uint(8);
                        w.uint(r.cols - 2);
                        w.uint(r.rows - 2);
                        gd(sx, 0);
                        gd(0, sy);
                    }
                } else if (r.cols > 1) {
                    if (sx >= 0 && !gen) {
                        w.uint(2);
                        w.uint(r.cols - 2);
                        w.uint((uint64_t)sx);
                    } else {
                        w.uint(9);
                        w.uint(r.cols - 2);
                        gd(sx, 0);
                    }
                } else {
                    if (sy >= 0 && !gen) {
                        w.uint(3);
                        w.uint(r.rows - 2);
                        w.uint((uint64_t)sy);
                    } else {
                        w.uint(9);
                        w.uint(r.rows - 2);
                        gd(0, sy);
                    }
                }
            } break;
            case model::REP_REGULAR: {
                if (r.cols > 1 && r.rows > 1) {
                    w.uint(8);
                    w.uint(r.cols - 2);
                    w.uint(r.rows - 2);
                    gd(g(r.v1.x), g(r.v1.y));
                    gd(g(r.v2.x), g(r.v2.y));
                } else if (r.cols > 1) {
                    w.uint(9);
                    w.uint(r.cols - 2);
                    gd(g(r.v1.x), g(r.v1.y));
                } else {
                    w.uint(9);
                    w.uint(r.rows - 2);
                    gd(g(r.v2.x), g(r.v2.y));
                }
            } break;
            case model::REP_EX:
            case model::REP_EY: {
                std::vector<int64_t> cs;
                for (dg_t v : r.coords) cs.push_back(g(v));
                std::sort(cs.begin(), cs.end());
                bool x = r.type == model::REP_EX;
                if (cs.front() >= 0 && !gen) {
                    std::vector<uint64_t> sp;
                    int64_t prev = 0;
                    uint64_t gcd = 0;
                    for (int64_t v : cs) {
                        sp.push_back((uint64_t)(v - prev));
                        prev = v;
                    }
                    for (uint64_t s : sp) gcd = std::__gcd(gcd, s);
                    bool grid = gcd > 1 && rng.chance(0.5);
                    w.uint((x ? 4 : 6) + (grid ? 1 : 0));
                    w.uint(cs.size() - 1);
                    if (grid) w.uint(gcd);
                    for (uint64_t s : sp) w.uint(grid ? s / gcd : s);
                } else {
                    w.uint(10);
                    w.uint(cs.size() - 1);
                    int64_t prev = 0;
                    for (int64_t v : cs) {
                        if (x)
                            gd(v - prev, 0);
                        else
                            gd(0, v - prev);
                        prev = v;
                    }
                }
            } break;
            case model::REP_EXPLICIT: {
                uint64_t gcd = 0;
                int64_t px2 = 0, py2 = 0;
                std::vector<std::pair<int64_t, int64_t>> ds;
                for (auto& o : r.offs) {
                    ds.push_back({g(o.x) - px2, g(o.y) - py2});
                    px2 = g(o.x);
                    py2 = g(o.y);
                }
                for (auto& d : ds) {
                    gcd = std::__gcd(gcd, (uint64_t)llabs(d.first));
                    gcd = std::__gcd(gcd, (uint64_t)llabs(d.second));
                }
                bool grid = gcd > 1 && rng.chance(0.5);
                w.uint(grid ? 11 : 10);
                w.uint(r.offs.size() - 1);
                if (grid) w.uint(gcd);
                for (auto& d : ds) gd(grid ? d.first / (int64_t)gcd : d.first, grid ? d.second / (int64_t)gcd : d.second);
            } break;
            default: break;
        }
        v_rep = r;
        m_rep = true;
    }

    // ------------------------------------------------------------- point lists
    // rel: positions of the following vertices relative to the first one
    void point_list(W& w, const std::vector<std::pair<int64_t, int64_t>>& rel, bool closed) {
        std::vector<std::pair<int64_t, int64_t>> d;
        int64_t lx = 0, ly = 0;
        for (auto& p : rel) {
            d.push_back({p.first - lx, p.second - ly});
            lx = p.first;
            ly = p.second;
        }
        bool manh = true, oct = true;
        for (auto& q : d) {
            if (q.first != 0 && q.second != 0) manh = false;
            if (!(q.first == 0 || q.second == 0 || llabs(q.first) == llabs(q.second))) oct = false;
        }
        // alternating manhattan (types 0/1)
        int alt = -1;  // 0 horizontal first, 1 vertical first
        if (manh && !d.empty()) {
            bool ok = true;
            bool horiz = d[0].second == 0 && d[0].first != 0;
            bool first_h = horiz;
            if (d[0].first == 0 && d[0].second == 0) ok = false;
            for (size_t i = 0; i < d.size() && ok; i++) {
                bool h = d[i].second == 0;
                bool v = d[i].first == 0;
                if (d[i].first == 0 && d[i].second == 0) ok = false;
                if ((i % 2 == 0) == first_h ? !h : !v) ok = false;
            }
            size_t listed = d.size();
            if (ok && closed) {
                // the last edge back to the start must itself continue the alternation: the list then
                // omits the final vertex, which the reader reconstructs
                if (d.size() < 3 || d.size() % 2 == 0) ok = false;
                if (ok) {
                    bool last_h = ((d.size() - 1) % 2 == 0) == first_h;
                    // final listed vertex must share x (if last move vertical... ) with the origin such that closing is axis parallel
                    // a horizontal last move is followed by a vertical closing edge: x must be back at the start
                    if (last_h ? (lx != 0) : (ly != 0)) ok = false;
                    listed = d.size() - 1;
                }
            }
            if (ok) {
                alt = first_h ? 0 : 1;
                (void)listed;
            }
        }
        int type;
        if (c.general_reps) {
            type = rng.chance(0.5) ? 4 : 5;
        } else if (alt >= 0 && rng.chance(0.8)) {
            type = alt;
        } else if (manh && rng.chance(0.7)) {
            type = 2;
        } else if (oct && rng.chance(0.7)) {
            type = 3;
        } else {
            type = rng.chance(0.8) ? 4 : 5;
        }
        w.uint((uint64_t)type);
        switch (type) {
            case 0:
            case 1: {
                size_t n = closed ? d.size() - 1 : d.size();
                w.uint(n);
                for (size_t i = 0; i < n; i++) w.sint(d[i].first != 0 ? d[i].first : d[i].second);
            } break;
            case 2:
                w.uint(d.size());
                for (auto& q : d) w.delta2(q.first, q.second);
                break;
            case 3:
                w.uint(d.size());
                for (auto& q : d) w.delta3(q.first, q.second);
                break;
            case 4:
                w.uint(d.size());
                for (auto& q : d) w.deltag(q.first, q.second, rng.chance(0.2));
                break;
            default: {
                w.uint(d.size());
                int64_t pdx = 0, pdy = 0;
                for (auto& q : d) {
                    w.deltag(q.first - pdx, q.second - pdy, rng.chance(0.2));
                    pdx = q.first;
                    pdy = q.second;
                }
            }
        }
    }

    // ------------------------------------------------------------- common pieces
    void maybe_mode(std::vector<Chunk>& out) {
        if (c.p_relative > 0 && rng.chance(c.p_relative)) {
            Chunk ch;
            ch.kind = 1;
            absolute = !absolute;
            ch.b.push_back(absolute ? 15 : 16);
            out.push_back(ch);
        }
    }

    // decides which of x / y are written and produces their values; updates the modal position
    void position(int64_t x, int64_t y, int64_t& mx, int64_t& my, bool& wx, bool& wy, int64_t& vx, int64_t& vy) {
        wx = !(x == mx && omit());
        wy = !(y == my && omit());
        vx = absolute ? x : x - mx;
        vy = absolute ? y : y - my;
        mx = x;
        my = y;
    }

    void layer_dt(W& w, uint8_t& info, uint32_t layer, uint32_t dt, W& fields) {
        (void)w;
        if (!(m_layer && v_layer == layer && omit())) {
            info |= 0x01;
            fields.uint(layer);
        }
        if (!(m_dt && v_dt == dt && omit())) {
            info |= 0x02;
            fields.uint(dt);
        }
        v_layer = layer;
        m_layer = true;
        v_dt = dt;
        m_dt = true;
    }

    void finish_element(std::vector<Chunk>& out, uint8_t id, uint8_t info, const W& fields, const std::vector<model::MProp>& ps) {
        Chunk ch;
        ch.kind = 1;
        ch.b.push_back(id);
        ch.b.push_back(info);
        ch.b.insert(ch.b.end(), fields.b.begin(), fields.b.end());
        W pw;
        props(pw, ps);
        ch.b.insert(ch.b.end(), pw.b.begin(), pw.b.end());
        out.push_back(ch);
        pad(out, 1);
    }

    // ------------------------------------------------------------- shapes
    static bool axis_rect(const std::vector<std::pair<int64_t, int64_t>>& v, int64_t& x, int64_t& y, int64_t& w, int64_t& h) {
        if (v.size() != 4) return false;
        int64_t x0 = std::min(std::min(v[0].first, v[1].first), std::min(v[2].first, v[3].first));
        int64_t x1 = std::max(std::max(v[0].first, v[1].first), std::max(v[2].first, v[3].first));
        int64_t y0 = std::min(std::min(v[0].second, v[1].second), std::min(v[2].second, v[3].second));
        int64_t y1 = std::max(std::max(v[0].second, v[1].second), std::max(v[2].second, v[3].second));
        int corners = 0;
        for (auto& p : v)
            if ((p.first == x0 || p.first == x1) && (p.second == y0 || p.second == y1)) corners++;
        bool a = v[0].first == v[1].first && v[1].second == v[2].second && v[2].first == v[3].first && v[3].second == v[0].second;
        bool b = v[0].second == v[1].second && v[1].first == v[2].first && v[2].second == v[3].second && v[3].first == v[0].first;
        if (corners != 4 || !(a || b) || x0 == x1 || y0 == y1) return false;
        x = x0;
        y = y0;
        w = x1 - x0;
        h = y1 - y0;
        return true;
    }

    // vertices of CTRAPEZOID type t with the given w, h (relative to x, y)
    static std::vector<std::pair<int64_t, int64_t>> ctrap(int t, int64_t w, int64_t h) {
        switch (t) {
            case 0: return {{0, 0}, {w, 0}, {w - h, h}, {0, h}};
            case 1: return {{0, 0}, {w - h, 0}, {w, h}, {0, h}};
            case 2: return {{0, 0}, {w, 0}, {w, h}, {h, h}};
            case 3: return {{h, 0}, {w, 0}, {w, h}, {0, h}};
            case 4: return {{0, 0}, {w, 0}, {w - h, h}, {h, h}};
            case 5: return {{h, 0}, {w - h, 0}, {w, h}, {0, h}};
            case 6: return {{0, 0}, {w - h, 0}, {w, h}, {h, h}};
            case 7: return {{h, 0}, {w, 0}, {w - h, h}, {0, h}};
            case 8: return {{0, 0}, {w, 0}, {w, h - w}, {0, h}};
            case 9: return {{0, 0}, {w, 0}, {w, h}, {0, h - w}};
            case 10: return {{0, 0}, {w, w}, {w, h}, {0, h}};
            case 11: return {{0, w}, {w, 0}, {w, h}, {0, h}};
            case 12: return {{0, 0}, {w, w}, {w, h - w}, {0, h}};
            case 13: return {{0, w}, {w, 0}, {w, h}, {0, h - w}};
            case 14: return {{0, 0}, {w, w}, {w, h}, {0, h - w}};
            case 15: return {{0, w}, {w, 0}, {w, h - w}, {0, h}};
            case 16: return {{0, 0}, {w, 0}, {0, w}};
            case 17: return {{0, 0}, {w, w}, {0, w}};
            case 18: return {{0, 0}, {w, 0}, {w, w}};
            case 19: return {{w, 0}, {w, w}, {0, w}};
            case 20: return {{0, 0}, {2 * h, 0}, {h, h}};
            case 21: return {{0, h}, {h, 0}, {2 * h, h}};
            case 22: return {{0, 0}, {w, w}, {0, 2 * w}};
            case 23: return {{w, 0}, {w, 2 * w}, {0, w}};
            case 24: return {{0, 0}, {w, 0}, {w, h}, {0, h}};
            default: return {{0, 0}, {w, 0}, {w, w}, {0, w}};
        }
    }

    static std::vector<canon::IPt> norm(const std::vector<std::pair<int64_t, int64_t>>& v) {
        std::vector<canon::IPt> p;
        for (auto& q : v) p.push_back(canon::IPt{q.first, q.second});
        canon::norm_cycle(p);
        return p;
    }

    void polygon(std::vector<Chunk>& out, const model::MPoly& p) {
        maybe_mode(out);
        std::vector<std::pair<int64_t, int64_t>> v;
        for (auto& q : p.pts) v.push_back({g(q.x), g(q.y)});
        bool has_rep = rep_count(p.rep) > 1;
        int64_t x, y, w, h;
        if (p.hint == 1 && c.special_shapes) {
            // CIRCLE
            info.has_circle = true;
            uint8_t inf = has_rep ? 0x04 : 0;
            W f;
            layer_dt(f, inf, p.layer, p.dtype, f);
            int64_t rad = g(p.cradius);
            if (!(m_radius && v_radius == rad && omit())) {
                inf |= 0x20;
                f.uint((uint64_t)rad);
            }
            v_radius = rad;
            m_radius = true;
            bool wx, wy;
            int64_t vx, vy;
            position(g(p.ccenter.x), g(p.ccenter.y), gx, gy, wx, wy, vx, vy);
            if (wx) {
                inf |= 0x10;
                f.sint(vx);
            }
            if (wy) {
                inf |= 0x08;
                f.sint(vy);
            }
            if (has_rep) repetition(f, p.rep);
            finish_element(out, 27, inf, f, p.props);
            return;
        }
        if (c.special_shapes && axis_rect(v, x, y, w, h) && rng.chance(0.8)) {
            bool as_ctrap = rng.chance(0.2);
            if (!as_ctrap) {
                uint8_t inf = has_rep ? 0x04 : 0;
                W f;
                layer_dt(f, inf, p.layer, p.dtype, f);
                bool square = w == h && rng.chance(0.7);
                if (square) inf |= 0x80;
                if (!(m_gw && v_gw == w && omit())) {
                    inf |= 0x40;
                    f.uint((uint64_t)w);
                }
                if (!square && !(m_gh && v_gh == h && omit())) {
                    inf |= 0x20;
                    f.uint((uint64_t)h);
                }
                v_gw = w;
                m_gw = true;
                v_gh = h;       // a square sets geometry-h to its width (h == w here): the format says so explicitly
                m_gh = true;
                bool wx, wy;
                int64_t vx, vy;
                position(x, y, gx, gy, wx, wy, vx, vy);
                if (wx) {
                    inf |= 0x10;
                    f.sint(vx);
                }
                if (wy) {
                    inf |= 0x08;
                    f.sint(vy);
                }
                if (has_rep) repetition(f, p.rep);
                finish_element(out, 20, inf, f, p.props);
                return;
            }
        }
        if (c.special_shapes && (v.size() == 4 || v.size() == 3)) {
            // compact trapezoid: try every type with the bounding box dimensions
            int64_t x0 = v[0].first, x1 = x0, y0 = v[0].second, y1 = y0;
            for (auto& q : v) {
                x0 = std::min(x0, q.first);
                x1 = std::max(x1, q.first);
                y0 = std::min(y0, q.second);
                y1 = std::max(y1, q.second);
            }
            std::vector<std::pair<int64_t, int64_t>> rel;
            for (auto& q : v) rel.push_back({q.first - x0, q.second - y0});
            std::vector<canon::IPt> want = norm(rel);
            int64_t bw = x1 - x0, bh = y1 - y0;
            std::vector<int> fits;
            for (int t = 0; t < 26; t++) {
                int64_t tw = bw, th = bh;
                if (t == 20 || t == 21) th = bh;            // w implied 2h
                if (t == 22 || t == 23) tw = bw;            // h implied 2w
                if (t >= 16 && t <= 19 && bw != bh) continue;
                if ((t == 20 || t == 21) && bw != 2 * bh) continue;
                if ((t == 22 || t == 23) && bh != 2 * bw) continue;
                if (t == 25 && bw != bh) continue;
                auto cand = ctrap(t, tw, th);
                bool neg = false;
                for (auto& q : cand)
                    if (q.first < 0 || q.second < 0) neg = true;
                if (neg) continue;
                std::vector<canon::IPt> got = norm(cand);
                if (got == want) fits.push_back(t);
            }
            if (!fits.empty() && rng.chance(0.8)) {
                int t = fits[rng.below(fits.size())];
                uint8_t inf = has_rep ? 0x04 : 0;
                W f;
                layer_dt(f, inf, p.layer, p.dtype, f);
                if (!(m_ctrap && v_ctrap == t && omit())) {
                    inf |= 0x80;
                    f.uint((uint64_t)t);
                }
                v_ctrap = t;
                m_ctrap = true;
                bool use_w = !(t == 20 || t == 21), use_h = t < 16 || t == 20 || t == 21 || t == 24;
                if (use_w && !(m_gw && v_gw == bw && omit())) {
                    inf |= 0x40;
                    f.uint((uint64_t)bw);
                }
                if (use_h && !(m_gh && v_gh == bh && omit())) {
                    inf |= 0x20;
                    f.uint((uint64_t)bh);
                }
                // modal width / height after the record, as the format defines them
                if (use_w) {
                    v_gw = bw;
                    m_gw = true;
                }
                if (use_h) {
                    v_gh = bh;
                    m_gh = true;
                }
                // Whether a dimension that the type implies also becomes the modal geometry-w/h is not
                // something this checker could pin down (DESIGN.md section 8): never rely on it afterwards.
                if ((t >= 16 && t <= 19) || t == 22 || t == 23 || t == 25) m_gh = false;
                if (t == 20 || t == 21) m_gw = false;
                bool wx, wy;
                int64_t vx, vy;
                position(x0, y0, gx, gy, wx, wy, vx, vy);
                if (wx) {
                    inf |= 0x10;
                    f.sint(vx);
                }
                if (wy) {
                    inf |= 0x08;
                    f.sint(vy);
                }
                if (has_rep) repetition(f, p.rep);
                finish_element(out, 26, inf, f, p.props);
                return;
            }
            // general trapezoid: two horizontal or two vertical parallel edges
            if (v.size() == 4 && rng.chance(0.8)) {
                for (int vertical = 0; vertical < 2; vertical++) {
                    // candidate parameters from the bounding box; verify by reconstruction
                    for (int attempt = 0; attempt < 1; attempt++) {
                        std::vector<std::pair<int64_t, int64_t>> lo, hi;  // points on the two parallel lines
                        for (auto& q : rel) {
                            int64_t along = vertical ? q.second : q.first, across = vertical ? q.first : q.second;
                            (void)along;
                            if (across == 0)
                                lo.push_back(q);
                            else if (across == (vertical ? bw : bh))
                                hi.push_back(q);
                        }
                        if (lo.size() != 2 || hi.size() != 2) continue;
                        int64_t da, db;
                        if (!vertical) {
                            int64_t bl = std::min(lo[0].first, lo[1].first), br = std::max(lo[0].first, lo[1].first);
                            int64_t tl = std::min(hi[0].first, hi[1].first), tr = std::max(hi[0].first, hi[1].first);
                            da = tl - bl;
                            db = tr - br;
                        } else {
                            int64_t lb = std::min(lo[0].second, lo[1].second), lt = std::max(lo[0].second, lo[1].second);
                            int64_t rb = std::min(hi[0].second, hi[1].second), rt = std::max(hi[0].second, hi[1].second);
                            da = lb - rb;
                            db = lt - rt;
                        }
                        std::vector<std::pair<int64_t, int64_t>> cand;
                        if (vertical)
                            cand = {{0, std::max<int64_t>(da, 0)}, {0, bh + std::min<int64_t>(db, 0)}, {bw, bh - std::max<int64_t>(db, 0)}, {bw, -std::min<int64_t>(da, 0)}};
                        else
                            cand = {{std::max<int64_t>(da, 0), bh}, {bw + std::min<int64_t>(db, 0), bh}, {bw - std::max<int64_t>(db, 0), 0}, {-std::min<int64_t>(da, 0), 0}};
                        if (norm(cand) != want) continue;
                        uint8_t inf = (has_rep ? 0x04 : 0) | (vertical ? 0x80 : 0);
                        W f;
                        layer_dt(f, inf, p.layer, p.dtype, f);
                        if (!(m_gw && v_gw == bw && omit())) {
                            inf |= 0x40;
                            f.uint((uint64_t)bw);
                        }
                        if (!(m_gh && v_gh == bh && omit())) {
                            inf |= 0x20;
                            f.uint((uint64_t)bh);
                        }
                        v_gw = bw;
                        m_gw = true;
                        v_gh = bh;
                        m_gh = true;
                        uint8_t id = 23;
                        if (db == 0 && rng.chance(0.7)) {
                            id = 24;
                            f.sint(da);
                        } else if (da == 0 && rng.chance(0.7)) {
                            id = 25;
                            f.sint(db);
                        } else {
                            f.sint(da);
                            f.sint(db);
                        }
                        bool wx, wy;
                        int64_t vx, vy;
                        position(x0, y0, gx, gy, wx, wy, vx, vy);
                        if (wx) {
                            inf |= 0x10;
                            f.sint(vx);
                        }
                        if (wy) {
                            inf |= 0x08;
                            f.sint(vy);
                        }
                        if (has_rep) repetition(f, p.rep);
                        finish_element(out, id, inf, f, p.props);
                        return;
                    }
                }
            }
        }
        // POLYGON: any starting vertex, either direction
        {
            size_t n = v.size();
            bool canonical = rng.chance(0.5);  // identical shapes then give identical point lists (modal reuse)
            size_t start = canonical ? 0 : rng.below(n);
            bool rev = canonical ? false : rng.chance(0.5);
            std::vector<std::pair<int64_t, int64_t>> seq;
            for (size_t i = 0; i < n; i++) seq.push_back(v[(start + (rev ? n - i : i)) % n]);
            std::vector<std::pair<int64_t, int64_t>> rel;
            for (size_t i = 1; i < n; i++) rel.push_back({seq[i].first - seq[0].first, seq[i].second - seq[0].second});
            uint8_t inf = has_rep ? 0x04 : 0;
            W f;
            layer_dt(f, inf, p.layer, p.dtype, f);
            if (!(m_poly && v_poly == rel && omit())) {
                inf |= 0x20;
                point_list(f, rel, true);
            }
            v_poly = rel;
            m_poly = true;
            bool wx, wy;
            int64_t vx, vy;
            position(seq[0].first, seq[0].second, gx, gy, wx, wy, vx, vy);
            if (wx) {
                inf |= 0x10;
                f.sint(vx);
            }
            if (wy) {
                inf |= 0x08;
                f.sint(vy);
            }
            if (has_rep) repetition(f, p.rep);
            finish_element(out, 21, inf, f, p.props);
        }
    }

    void path(std::vector<Chunk>& out, const model::MPath& p) {
        maybe_mode(out);
        bool has_rep = rep_count(p.rep) > 1;
        uint8_t inf = has_rep ? 0x04 : 0;
        W f;
        layer_dt(f, inf, p.layer, p.dtype, f);
        int64_t hw = g(p.hw);
        if (!(m_hw && v_hw == hw && omit())) {
            inf |= 0x40;
            f.uint((uint64_t)hw);
        }
        v_hw = hw;
        m_hw = true;
        int64_t es = p.end == model::END_HALF ? hw : (p.end == model::END_EXT ? g(p.eu) : 0);
        int64_t ee = p.end == model::END_HALF ? hw : (p.end == model::END_EXT ? g(p.ev) : 0);
        auto scheme_of = [&](int64_t want, bool have, int64_t cur) -> int {
            if (have && cur == want && omit()) return 0;
            if (want == 0 && rng.chance(0.8)) return 1;
            if (want == hw && rng.chance(0.8)) return 2;
            return 3;
        };
        int ss = scheme_of(es, m_exts, v_exts), se = scheme_of(ee, m_exte, v_exte);
        if (ss || se) {
            inf |= 0x80;
            f.uint((uint64_t)((ss << 2) | se));
            if (ss == 3) f.sint(es);
            if (se == 3) f.sint(ee);
        }
        v_exts = es;
        m_exts = true;
        v_exte = ee;
        m_exte = true;
        std::vector<std::pair<int64_t, int64_t>> rel;
        const std::vector<model::Pt> cl = model::centre_line(p);
        for (size_t i = 1; i < cl.size(); i++) rel.push_back({g(cl[i].x) - g(cl[0].x), g(cl[i].y) - g(cl[0].y)});
        if (!(m_path && v_path == rel && omit())) {
            inf |= 0x20;
            point_list(f, rel, false);
        }
        v_path = rel;
        m_path = true;
        bool wx, wy;
        int64_t vx, vy;
        position(g(cl[0].x), g(cl[0].y), gx, gy, wx, wy, vx, vy);
        if (wx) {
            inf |= 0x10;
            f.sint(vx);
        }
        if (wy) {
            inf |= 0x08;
            f.sint(vy);
        }
        if (has_rep) repetition(f, p.rep);
        finish_element(out, 22, inf, f, p.props);
    }

    void label(std::vector<Chunk>& out, const model::MLabel& l) {
        maybe_mode(out);
        bool has_rep = rep_count(l.rep) > 1;
        uint8_t inf = has_rep ? 0x04 : 0;
        W f;
        if (!(m_text && v_text == l.text && omit())) {
            inf |= 0x40;
            if (c.text_strings != 0) {
                inf |= 0x20;
                f.uint(final_number(number(text_num, text_order, l.text), 0, 1));
            } else {
                f.str(l.text);
            }
        }
        v_text = l.text;
        m_text = true;
        if (!(m_tl && v_tl == l.layer && omit())) {
            inf |= 0x01;
            f.uint(l.layer);
        }
        if (!(m_tt && v_tt == l.ttype && omit())) {
            inf |= 0x02;
            f.uint(l.ttype);
        }
        v_tl = l.layer;
        m_tl = true;
        v_tt = l.ttype;
        m_tt = true;
        bool wx, wy;
        int64_t vx, vy;
        position(g(l.origin.x), g(l.origin.y), tx, ty, wx, wy, vx, vy);
        if (wx) {
            inf |= 0x10;
            f.sint(vx);
        }
        if (wy) {
            inf |= 0x08;
            f.sint(vy);
        }
        if (has_rep) repetition(f, l.rep);
        auto h = hoisted.find(l.text);
        if (h != hoisted.end() && !h->second.empty())
            finish_element(out, 19, inf, f, std::vector<model::MProp>(l.props.begin() + (long)h->second.size(), l.props.end()));
        else
            finish_element(out, 19, inf, f, l.props);
    }

    void placement(std::vector<Chunk>& out, const model::MRef& r) {
        maybe_mode(out);
        bool has_rep = rep_count(r.rep) > 1;
        uint8_t inf = has_rep ? 0x08 : 0;
        W f;
        if (!(m_cell && v_cell == r.target && omit())) {
            inf |= 0x80;
            if (c.cell_names != 0) {
                inf |= 0x40;
                f.uint(final_number(number(cell_num, cell_order, r.target), 0, 0));
            } else {
                f.str(r.target);
            }
        }
        v_cell = r.target;
        m_cell = true;
        double q = r.rot_deg / 90.0;
        bool right = q == floor(q);
        uint8_t id;
        if (right && r.mag == 1.0 && rng.chance(0.85)) {
            id = 17;
            inf |= (uint8_t)((((int64_t)q % 4 + 4) % 4) << 1);
        } else {
            id = 18;
            if (r.mag != 1.0 || rng.chance(0.3)) {
                inf |= 0x04;
                f.real(r.mag, (int)c.unit_form, rng);
            }
            if (r.rot_deg != 0.0 || rng.chance(0.3)) {
                inf |= 0x02;
                f.real(r.rot_deg, (int)c.unit_form, rng);
            }
        }
        if (r.xrefl) inf |= 0x01;
        bool wx, wy;
        int64_t vx, vy;
        position(g(r.origin.x), g(r.origin.y), px, py, wx, wy, vx, vy);
        if (wx) {
            inf |= 0x20;
            f.sint(vx);
        }
        if (wy) {
            inf |= 0x10;
            f.sint(vy);
        }
        if (has_rep) repetition(f, r.rep);
        finish_element(out, id, inf, f, r.props);
    }

    // ------------------------------------------------------------- file assembly
    Bytes deflate_raw(const Bytes& in) {
        z_stream z;
        memset(&z, 0, sizeof z);
        deflateInit2(&z, 6, Z_DEFLATED, -15, 8, Z_DEFAULT_STRATEGY);
        Bytes out(deflateBound(&z, (uLong)in.size()) + 16);
        z.next_in = (Bytef*)in.data();
        z.avail_in = (uInt)in.size();
        z.next_out = out.data();
        z.avail_out = (uInt)out.size();
        deflate(&z, Z_FINISH);
        out.resize(z.total_out);
        deflateEnd(&z);
        return out;
    }

    void flush_group(Bytes& body, Bytes& group, bool compress) {
        if (group.empty()) return;
        if (compress) {
            Bytes comp = deflate_raw(group);
            W w;
            w.byte(34);
            w.uint(0);
            w.uint(group.size());
            w.uint(comp.size());
            body.insert(body.end(), w.b.begin(), w.b.end());
            body.insert(body.end(), comp.begin(), comp.end());
        } else {
            body.insert(body.end(), group.begin(), group.end());
        }
        group.clear();
    }

    std::map<std::string, std::vector<model::MProp>> hoisted;  // text -> properties written on its TEXTSTRING record

    std::vector<uint8_t> run() {
        // 1. file-level properties come first in the stream, so they are encoded first (modal state)
        W fileprops;
        props(fileprops, m.props);
        // properties that all labels of one text have in common, in front of their own, can stand on the
        // TEXTSTRING record instead (texts given by number)
        if (c.text_strings == 2 && c.hoist_text_props) {  // (table behind the cells: nothing after it relies on modal state)
            std::map<std::string, std::vector<const model::MLabel*>> by_text;
            for (auto& cell : m.cells)
                for (auto& l : cell.labels) by_text[l.text].push_back(&l);
            for (auto& kv : by_text) {
                std::vector<model::MProp> pre = kv.second[0]->props;
                for (auto* l : kv.second) {
                    size_t k = 0;
                    while (k < pre.size() && k < l->props.size() && model::to_json(std::vector<model::MProp>{pre[k]}).str(0) == model::to_json(std::vector<model::MProp>{l->props[k]}).str(0)) k++;
                    pre.resize(k);
                }
                if (!pre.empty()) hoisted[kv.first] = pre;
            }
        }
        // 2. cells
        std::vector<std::vector<Chunk>> cell_chunks;
        for (auto& cell : m.cells) {
            std::vector<Chunk> out;
            if (c.layernames && rng.chance(0.3)) {
                // LAYERNAME: name, layer interval, datatype interval (types 0..4).  A name record stands between
                // cells (it ends the cell before it), so it goes in front of this cell's CELL record; PROPERTY
                // records that follow it belong to the layer name, which is not part of the layout
                Chunk ln;
                ln.kind = 1;
                W lw;
                lw.byte(rng.chance(0.5) ? 11 : 12);
                lw.str("METAL" + std::to_string(rng.below(9)));
                for (int k = 0; k < 2; k++) {
                    uint64_t t = rng.below(5);
                    lw.uint(t);
                    if (t == 4) lw.uint(rng.below(50));
                    if (t > 0) lw.uint(50 + rng.below(50));
                }
                if (rng.chance(0.5)) {
                    model::MProp lp;
                    lp.name = "LAYER_NOTE";
                    model::MVal v;
                    v.kind = 0;
                    v.u = rng.below(100);
                    lp.vals = {v};
                    m_pname = false;  // self-contained, and nothing after it relies on it
                    m_pvals = false;
                    props(lw, {lp});
                    m_pname = false;
                    m_pvals = false;
                }
                ln.b = lw.b;
                out.push_back(ln);
            }
            Chunk cr;
            cr.kind = 0;
            W w;
            if (c.cell_names != 0) {
                w.byte(13);
                w.uint(final_number(number(cell_num, cell_order, cell.name), 0, 0));
            } else {
                w.byte(14);
                w.str(cell.name);
            }
            // modal reset by the CELL record
            px = py = tx = ty = gx = gy = 0;
            absolute = true;
            bool on_name_record = c.cellname_props && c.cell_names == 2 && !cell.props.empty();
            if (!on_name_record) {
                W pw;
                props(pw, cell.props);
                w.b.insert(w.b.end(), pw.b.begin(), pw.b.end());
            } else {
                name_record_props[cell.name] = cell.props;
            }
            cr.b = w.b;
            out.push_back(cr);
            // elements in a seeded order
            std::vector<std::pair<int, size_t>> items;
            for (size_t i = 0; i < cell.polys.size(); i++) items.push_back({0, i});
            for (size_t i = 0; i < cell.paths.size(); i++) items.push_back({1, i});
            for (size_t i = 0; i < cell.labels.size(); i++) items.push_back({2, i});
            for (size_t i = 0; i < cell.refs.size(); i++) items.push_back({3, i});
            if (c.shuffle)
                for (size_t i = items.size(); i > 1; i--) std::swap(items[i - 1], items[rng.below(i)]);
            for (auto& it : items) {
                switch (it.first) {
                    case 0: polygon(out, cell.polys[it.second]); break;
                    case 1: path(out, cell.paths[it.second]); break;
                    case 2: label(out, cell.labels[it.second]); break;
                    default: placement(out, cell.refs[it.second]);
                }
            }
            cell_chunks.push_back(out);
        }
        // 3. name tables (content known only now)
        auto table_bytes = [&](int table, const std::vector<std::string>& order, uint8_t id_implicit) {
            Bytes b;
            std::vector<size_t> idx;
            for (size_t i = 0; i < order.size(); i++) idx.push_back(i);
            if (c.explicit_numbers)
                for (size_t i = idx.size(); i > 1; i--) std::swap(idx[i - 1], idx[rng.below(i)]);
            for (size_t i : idx) {
                W w;
                w.byte(c.explicit_numbers ? id_implicit + 1 : id_implicit);
                w.str(order[i]);
                if (c.explicit_numbers) w.uint(final_number(i, 0, table));
                if (table == 1 && hoisted.count(order[i])) {
                    m_pname = false;
                    m_pvals = false;
                    props(w, hoisted[order[i]]);
                }
                if (table == 0 && name_record_props.count(order[i])) {
                    // self-contained PROPERTY records: the table sits after all cells, nothing relies on modal state later
                    m_pname = false;
                    m_pvals = false;
                    props(w, name_record_props[order[i]]);
                }
                b.insert(b.end(), w.b.begin(), w.b.end());
            }
            return b;
        };
        // property names/strings used inside the tables' own properties do not occur (names carry none here)
        Bytes t_cell = c.cell_names ? table_bytes(0, cell_order, 3) : Bytes();
        Bytes t_text = c.text_strings ? table_bytes(1, text_order, 5) : Bytes();
        Bytes t_pname = c.prop_names ? table_bytes(2, pname_order, 7) : Bytes();
        Bytes t_pstr = c.prop_strings ? table_bytes(3, pstr_order, 9) : Bytes();
        bool before[4] = {c.cell_names == 1, c.text_strings == 1, c.prop_names == 1, c.prop_strings == 1};
        Bytes* tabs[4] = {&t_cell, &t_text, &t_pname, &t_pstr};

        double unit = 1e-6 / m.precision;
        uint64_t offsets[6] = {0, 0, 0, 0, 0, 0};
        Bytes file;
        for (int iter = 0; iter < 6; iter++) {
            file.clear();
            static const char magic[] = "%SEMI-OASIS\r\n";
            file.insert(file.end(), magic, magic + 13);
            W st;
            st.byte(1);
            st.str("1.0");
            {
                sim::Rng r2(c.seed ^ 0x55);
                st.real(unit, (int)c.unit_form, r2);
            }
            st.uint(c.offsets_in_start ? 0 : 1);
            auto put_offsets = [&](W& w) {
                for (int k = 0; k < 6; k++) {
                    bool strict = c.strict_tables && k < 4 && offsets[k] != 0;
                    w.uint(strict ? 1 : 0);
                    w.uint(k < 4 ? offsets[k] : 0);
                }
            };
            if (c.offsets_in_start) put_offsets(st);
            file.insert(file.end(), st.b.begin(), st.b.end());
            file.insert(file.end(), fileprops.b.begin(), fileprops.b.end());
            uint64_t new_off[6] = {0, 0, 0, 0, 0, 0};
            bool compress_tables = c.cblock == 3;
            auto emit_table = [&](int k) {
                if (tabs[k]->empty()) return;
                if (compress_tables) {
                    Bytes grp = *tabs[k];
                    flush_group(file, grp, true);
                    new_off[k] = 0;  // a table inside a CBLOCK has no file offset
                } else {
                    new_off[k] = file.size();
                    file.insert(file.end(), tabs[k]->begin(), tabs[k]->end());
                }
            };
            for (int k = 0; k < 4; k++)
                if (before[k]) emit_table(k);
            sim::Rng rgroup(c.seed ^ 0xC0FFEE);
            for (auto& cc : cell_chunks) {
                Bytes group;
                bool open = false;
                for (auto& ch : cc) {
                    if (ch.kind == 0) {
                        flush_group(file, group, open);
                        open = false;
                        file.insert(file.end(), ch.b.begin(), ch.b.end());
                        if (c.cblock == 1 || c.cblock == 3) open = true;
                        continue;
                    }
                    if (c.cblock == 2) {
                        if (rgroup.chance(0.3)) {
                            flush_group(file, group, open);
                            open = rgroup.chance(0.5);
                        }
                    }
                    group.insert(group.end(), ch.b.begin(), ch.b.end());
                }
                flush_group(file, group, open);
            }
            for (int k = 0; k < 4; k++)
                if (!before[k]) emit_table(k);
            bool stable = true;
            for (int k = 0; k < 4; k++)
                if (new_off[k] != offsets[k]) stable = false;
            for (int k = 0; k < 4; k++) offsets[k] = new_off[k];
            if (!c.offsets_in_start || stable || iter == 5) {
                // END
                W e;
                e.byte(2);
                if (!c.offsets_in_start) put_offsets(e);
                size_t fixed = e.b.size() + 1 + (c.validation ? 4 : 0);  // + scheme byte (+ signature)
                size_t pad_len = 256 - fixed - 1;
                if (pad_len >= 128) pad_len = 256 - fixed - 2;
                e.uint(pad_len);
                for (size_t i = 0; i < pad_len; i++) e.byte(0);
                e.uint((uint64_t)c.validation);
                file.insert(file.end(), e.b.begin(), e.b.end());
                if (c.validation == 1) {
                    uint32_t s = crc32(file.data(), file.size());
                    for (int i = 0; i < 4; i++) file.push_back((uint8_t)(s >> (8 * i)));
                } else if (c.validation == 2) {
                    uint32_t s = 0;
                    for (uint8_t b : file) s += b;
                    for (int i = 0; i < 4; i++) file.push_back((uint8_t)(s >> (8 * i)));
                }
                break;
            }
        }
        return file;
    }
};

}  // namespace

std::vector<uint8_t> encode(const model::MLib& m, const Choices& c, EncodeInfo* info) {
    Enc e(m, c);
    std::vector<uint8_t> out = e.run();
    if (info) *info = e.info;
    return out;
}

}  // namespace oaspeer
