// Independent OASIS codec ("peer tool"), written from the SEMI P39 OASIS 1.0 format description for this
// checker.  Shares no code and no tables with gdstk (zlib is used for raw deflate/inflate only).
//   decode(): strict decoder with its own modal-variable state -> model::MLib + facts about the file
//   encode(): encoder from model::MLib under a vector of legal serialisation choices
#ifndef GDSIM_OAS_PEER_HPP
#define GDSIM_OAS_PEER_HPP

#include <map>
#include <set>

#include "model.hpp"
#include "sim.hpp"

namespace oaspeer {

struct CellFacts {
    std::string name;
    uint64_t offset = 0;          // file offset of the CELL record
    bool in_cblock = false;
    int64_t bb_xmin = 0, bb_ymin = 0, bb_xmax = 0, bb_ymax = 0;  // own geometry only (filled by caller)
    std::vector<model::MProp> name_props;  // properties attached to its CELLNAME record
};

struct Census {
    uint64_t rectangle = 0, square = 0, polygon = 0, path = 0, trapezoid = 0, ctrapezoid = 0, circle = 0, text = 0,
             placement = 0, placement_t = 0, cblock = 0, property = 0, repetition[12] = {0}, pointlist[6] = {0},
             ctrap_type[26] = {0}, modal_reuse = 0, xyrelative = 0, pad = 0;
};

struct Decoded {
    bool ok = false;         // container readable up to and including END
    bool strict_ok = false;  // and every strict rule holds
    std::string error;
    model::MLib lib;         // unit = 1e-6, precision from START
    std::vector<CellFacts> cells;
    Census census;
    // END / tables
    uint64_t end_offset = 0;           // offset of the END record id byte
    uint64_t file_size = 0;
    int validation = 0;                // 0 none, 1 crc32, 2 checksum32
    uint32_t stored_signature = 0, computed_signature = 0;
    bool offsets_in_end = false;
    uint64_t table_flag[6] = {0}, table_offset[6] = {0};
    uint64_t first_record_offset[6] = {0};  // actual offset of the first record of each name table (0 = none)
    bool table_contiguous[6] = {true, true, true, true, true, true};
    std::vector<model::MProp> file_props;   // properties right after START (standard ones included)
    uint64_t max_polygon_vertices = 0, max_path_vertices = 0, max_string = 0;
};

Decoded decode(const std::vector<uint8_t>& bytes);

// ---------------------------------------------------------------- encoder
struct Choices {
    uint64_t seed = 0;           // drives the per-field coin flips (modal reuse, encodings, PAD, ...)
    int cell_names = 0;          // 0 CELL by name string, 1 refnum + table before cells, 2 refnum + table after cells
    bool explicit_numbers = false;   // explicit reference numbers (permuted) instead of implicit numbering
    int text_strings = 0;        // 0 inline, 1 table before, 2 table after (forward references)
    int prop_names = 0;          // same
    int prop_strings = 0;        // same (value types 13-15)
    double p_modal = 0.5;        // probability to omit a field that equals its modal variable
    double p_relative = 0.3;     // probability to switch xy-mode before an element
    double p_pad = 0.05;
    int cblock = 0;              // 0 none, 1 around each cell body, 2 around random record runs, 3 also name tables
    bool offsets_in_start = false;
    int validation = 0;
    bool strict_tables = true;
    bool special_shapes = true;  // RECTANGLE / TRAPEZOID / CTRAPEZOID / CIRCLE where the polygon qualifies
    bool general_reps = false;   // prefer the general repetition / point list forms
    double unit_form = 0;        // encoding family for reals: 0 natural, 1 ratio where possible, 2 float64
    bool shuffle = true;         // seeded order of the elements inside a cell (else model order)
    bool cellname_props = false; // cell properties on the CELLNAME record (only with the table after the cells)
    bool layernames = false;     // LAYERNAME records (legal noise for a reader that does not use them)
    bool hoist_text_props = false;  // common leading properties of the labels of one text go on its TEXTSTRING record
};

Choices random_choices(sim::Rng& r);
J to_json(const Choices& c);
Choices choices_from(const J& j);

struct EncodeInfo {
    bool has_circle = false;
};

// `m` must be in the OASIS data model (integer grid coordinates: every dg multiple of 10)
std::vector<uint8_t> encode(const model::MLib& m, const Choices& c, EncodeInfo* info = nullptr);

uint32_t crc32(const uint8_t* p, size_t n);

}  // namespace oaspeer

#endif
