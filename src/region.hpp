// Region comparison on the integer grid: does a set of polygons (pieces) cover exactly the region of a
// reference set (originals)?  Decided by exact doubled area (Manhattan input) or area within a sliver
// bound (oblique input), plus exact point-membership agreement on seeded sample points that are kept
// away from every edge.
#ifndef GDSIM_REGION_HPP
#define GDSIM_REGION_HPP

#include "canon.hpp"
#include "sim.hpp"

namespace region {

using canon::IPt;
typedef std::vector<IPt> Poly;

inline bool manhattan(const Poly& p) {
    size_t n = p.size();
    for (size_t i = 0; i < n; i++) {
        const IPt &a = p[i], &b = p[(i + 1) % n];
        if (a.x != b.x && a.y != b.y) return false;
    }
    return true;
}

// sample points live on a grid 64 times finer than the database grid, at odd sub-positions, so they
// never sit on an axis-parallel edge with integer coordinates
struct Sample {
    int64_t x, y;  // in 1/64 grid units
};

// +1 inside, 0 outside, -1 on the boundary (exact, even-odd rule)
inline int contains(const Poly& p, const Sample& s) {
    size_t n = p.size();
    bool in = false;
    for (size_t i = 0; i < n; i++) {
        __int128 ax = (__int128)p[i].x * 64, ay = (__int128)p[i].y * 64;
        __int128 bx = (__int128)p[(i + 1) % n].x * 64, by = (__int128)p[(i + 1) % n].y * 64;
        __int128 cr = (bx - ax) * (s.y - ay) - (by - ay) * (s.x - ax);
        if (cr == 0 && std::min(ax, bx) <= s.x && s.x <= std::max(ax, bx) && std::min(ay, by) <= s.y &&
            s.y <= std::max(ay, by))
            return -1;
        if ((ay > s.y) != (by > s.y)) {
            // x coordinate of the crossing compared with s.x, without division
            __int128 lhs = (s.y - ay) * (bx - ax);
            __int128 rhs = (s.x - ax) * (by - ay);
            bool right = (by > ay) ? (lhs > rhs) : (lhs < rhs);
            if (right) in = !in;
        }
    }
    return in ? 1 : 0;
}

// squared distance (in 1/64 units, as double) from a sample to the nearest edge of p
inline double edge_dist2(const Poly& p, const Sample& s) {
    double best = 1e300;
    size_t n = p.size();
    for (size_t i = 0; i < n; i++) {
        double ax = p[i].x * 64.0, ay = p[i].y * 64.0, bx = p[(i + 1) % n].x * 64.0, by = p[(i + 1) % n].y * 64.0;
        double dx = bx - ax, dy = by - ay;
        double l2 = dx * dx + dy * dy;
        double t = l2 > 0 ? ((s.x - ax) * dx + (s.y - ay) * dy) / l2 : 0;
        t = t < 0 ? 0 : (t > 1 ? 1 : t);
        double px = ax + t * dx - s.x, py = ay + t * dy - s.y;
        double d2 = px * px + py * py;
        if (d2 < best) best = d2;
    }
    return best;
}

struct Result {
    bool same = true;
    std::string why;
    uint64_t samples_used = 0;
};

// originals: simple polygons, pairwise non-overlapping (the generator guarantees it per tag)
inline Result compare(const std::vector<Poly>& originals, const std::vector<Poly>& pieces, uint64_t seed,
                      uint64_t max_piece_vertices) {
    Result R;
    bool manh = true;
    __int128 a_orig = 0, a_piece = 0;
    double perimeter = 0;
    int64_t xmin = INT64_MAX, xmax = INT64_MIN, ymin = INT64_MAX, ymax = INT64_MIN;
    for (auto& p : originals) {
        manh = manh && manhattan(p);
        __int128 a = canon::area2(p);
        a_orig += a < 0 ? -a : a;
        for (size_t i = 0; i < p.size(); i++) {
            const IPt& q = p[(i + 1) % p.size()];
            perimeter += hypot((double)(q.x - p[i].x), (double)(q.y - p[i].y));
            xmin = std::min(xmin, p[i].x);
            xmax = std::max(xmax, p[i].x);
            ymin = std::min(ymin, p[i].y);
            ymax = std::max(ymax, p[i].y);
        }
    }
    uint64_t cut_len = 0;
    for (auto& p : pieces) {
        __int128 a = canon::area2(p);
        a_piece += a < 0 ? -a : a;
        if (max_piece_vertices && p.size() > max_piece_vertices) {
            R.same = false;
            R.why = "a piece has " + std::to_string(p.size()) + " vertices, limit " + std::to_string(max_piece_vertices);
            return R;
        }
        cut_len += p.size();
    }
    if (originals.empty()) {
        if (!pieces.empty()) {
            R.same = false;
            R.why = "polygons found where none was expected";
        }
        return R;
    }
    __int128 diff = a_orig - a_piece;
    if (diff < 0) diff = -diff;
    if (manh) {
        if (diff != 0) {
            R.same = false;
            R.why = "doubled area differs: expected " + std::to_string((double)a_orig) + " found " + std::to_string((double)a_piece);
            return R;
        }
    } else {
        // every cut re-rounds at most two vertices per piece edge crossing: slivers at most one grid wide
        double bound = 2.0 * (perimeter + 4.0 * (double)cut_len) + 16;
        if ((double)diff > bound) {
            R.same = false;
            R.why = "doubled area differs by " + std::to_string((double)diff) + " (sliver bound " + std::to_string(bound) + ")";
            return R;
        }
    }
    sim::Rng r(seed);
    int wanted = 160;
    double band2 = manh ? 0.0 : (1.5 * 64) * (1.5 * 64);
    // besides the points scattered over the box, points next to the edges of the originals: two grid steps to
    // either side of the middle of an edge (a small part that went missing - an island, a thin piece - is
    // found by its own edges, however large the box around it)
    std::vector<Sample> aimed;
    {
        size_t edges = 0;
        for (auto& p : originals) edges += p.size();
        size_t stride = edges > 600 ? edges / 600 + 1 : 1, k = 0;
        for (auto& p : originals)
            for (size_t i = 0; i < p.size(); i++, k++) {
                if (k % stride) continue;
                const IPt& a = p[i];
                const IPt& b = p[(i + 1) % p.size()];
                double dx = (double)(b.x - a.x), dy = (double)(b.y - a.y), len = hypot(dx, dy);
                if (len == 0) continue;
                double mx = (a.x + b.x) * 32.0, my = (a.y + b.y) * 32.0;  // middle, in 1/64 units
                for (int side = -1; side <= 1; side += 2) {
                    Sample s;
                    s.x = (int64_t)llround(mx - side * dy / len * 128.0) | 1;
                    s.y = (int64_t)llround(my + side * dx / len * 128.0) | 1;
                    aimed.push_back(s);
                }
            }
    }
    size_t aimed_at = 0;
    for (int t = 0; (t < wanted * 4 && (int)R.samples_used < wanted) || aimed_at < aimed.size(); t++) {
        Sample s;
        if (aimed_at < aimed.size()) {
            s = aimed[aimed_at++];
        } else {
            s.x = (xmin - 2) * 64 + (int64_t)r.below((uint64_t)(xmax - xmin + 4) * 64);
            s.y = (ymin - 2) * 64 + (int64_t)r.below((uint64_t)(ymax - ymin + 4) * 64);
        }
        s.x |= 1;  // odd sub-position: never on an integer axis-parallel line
        s.y |= 1;
        int in_orig = 0;
        bool skip = false;
        for (auto& p : originals) {
            int c = contains(p, s);
            if (c < 0) skip = true;
            if (c > 0) in_orig++;
            if (!manh && edge_dist2(p, s) < band2) skip = true;
        }
        if (skip) continue;
        int in_piece = 0;
        for (auto& p : pieces) {
            int c = contains(p, s);
            if (c < 0) {
                skip = true;
                break;
            }
            if (c > 0) in_piece++;
        }
        if (skip) continue;
        R.samples_used++;
        if (in_orig != in_piece) {
            R.same = false;
            char buf[160];
            snprintf(buf, sizeof buf, "point (%.4f, %.4f): covered by %d original(s) but by %d piece(s)", s.x / 64.0,
                     s.y / 64.0, in_orig, in_piece);
            R.why = buf;
            return R;
        }
    }
    return R;
}

}  // namespace region

#endif
