// Scenario generators: VERIF_SEED + run index -> explicit plan (JSON).  One generator per property.
#ifndef GDSIM_SCEN_HPP
#define GDSIM_SCEN_HPP

#include "gds_peer.hpp"
#include "gen.hpp"
#include "oas_peer.hpp"
#include "json.hpp"
#include "sim.hpp"

namespace scen {

using sim::Rng;

inline uint64_t run_seed(uint64_t verif_seed, uint64_t index) {
    uint64_t x = verif_seed ^ (index * 0x9e3779b97f4a7c15ULL + 0x632be59bd9b4e019ULL);
    uint64_t a = sim::splitmix64(x);
    return a ^ sim::splitmix64(x);
}

enum Stream { S_MODEL = 1, S_CHOICES = 2, S_SCHED = 3, S_FAULT = 4, S_ENV = 5, S_OPT = 6 };

inline J op(const char* name) {
    J j = J::obj();
    j.set("op", name);
    return j;
}

inline J knobs_op(Rng& r, int min_fd, int max_fd) {
    J k = op("knobs");
    static const int64_t bufs[] = {-1, -1, 0, 1, 2, 3, 7, 16, 64, 512, 4096, 65536};
    k.set("buf", bufs[r.below(12)]);
    static const int64_t chunks[] = {0, 0, 0, 1, 2, 3, 5, 16, 100, 4096};
    k.set("chunk", chunks[r.below(10)]);
    k.set("fdlimit", r.range(min_fd, max_fd));
    k.set("heap_junk", r.chance(0.85));
    k.set("heap_zero_null", r.chance(0.15));  // malloc(0) may return NULL
    k.set("no_logger", r.chance(0.12));  // diagnostics switched off
    static const int64_t oasbufs[] = {0, 0, 1, 2, 7, 64, 1000, 65536};
    k.set("oas_buf", oasbufs[r.below(8)]);  // guarded hook: initial CBLOCK staging buffer of write_oas (0 = shipped size)
    return k;
}

inline J random_ts(Rng& r) {
    if (r.chance(0.3)) return J();
    J t = J::arr();
    // the six fields are stored as they are given: any value a struct tm field may take, whether or not the
    // calendar has that day (30 February) or that second (a leap second)
    // (a year is stored in an unsigned 16-bit word: the upper half of its range is as good as the lower)
    static const int64_t years[] = {1900, 1970, 1999, 2000, 2038, 2100, 9999, 32767, 32768, 40000, 65535};
    t.push(r.chance(0.12) ? years[r.below(11)] : r.range(1970, 2105));
    t.push(r.range(1, 12));
    t.push(r.range(1, 31));
    t.push(r.range(0, 23));
    t.push(r.range(0, 59));
    t.push(r.chance(0.05) ? 60 : r.range(0, 59));
    return t;
}

inline int64_t random_clock(Rng& r) {
    switch (r.below(10)) {
        case 8: return -2208988801LL;  // 1899-12-31 23:59:59: tm_year becomes negative
        case 9: return 253402300799LL; // 9999-12-31 23:59:59
        case 0: return 946684799;     // 1999-12-31 23:59:59
        case 1: return 2147483647;    // 2038 rollover
        case 2: return 2147483648LL;
        case 3: return 0;
        case 4: return 4102444800LL;  // 2100
        default: return r.range(100000000, 3000000000LL);
    }
}

inline uint64_t pick_max_points(Rng& r) {
    static const uint64_t mp[] = {0, 0, 0, 199, 5, 8, 12, 8190, 600, 4000};
    return mp[r.below(10)];
}

inline J oas_options(Rng& r, J& o) {
    o.set("flags", (int64_t)r.below(256));
    o.set("level", (int64_t)r.below(10));
    o.set("tol", r.chance(0.5) ? 0.0 : 0.01);
    return o;
}

static const char* const GDS_READERS[] = {"read_gds", "read_rawcells", "gds_info", "gds_units", "gds_timestamp"};
static const char* const OAS_READERS[] = {"oas_precision", "oas_validate"};

inline int64_t pick_repeat(Rng& r) {
    static const int64_t reps[] = {1, 1, 1, 2, 3, 17};
    return reps[r.below(6)];
}

// ------------------------------------------------------------------------------------------- GDSII data model
// Projects a model onto what a GDSII stream can hold directly: integer grid coordinates, no repetition
// except lattices on references, integer path widths, GDSII properties only.
inline model::MLib gdsify(const model::MLib& in) {
    using model::Pt;
    model::MLib m;
    m.name = in.name;
    m.unit = in.unit;
    m.precision = in.precision;
    auto g10 = [](model::dg_t v) { return canon::rgrid(v) * 10; };
    auto gprops = [](const std::vector<model::MProp>& ps) {
        std::vector<model::MProp> r;
        for (auto& p : ps)
            if (canon::is_gds_prop(p)) {
                model::MProp q = p;
                q.vals.resize(2);
                q.vals[0].u &= 0x7fff;
                q.vals[1].s = canon::strip_nuls(q.vals[1].s) + std::string(1, '\0');
                bool dup = false;
                for (auto& o : r) dup = dup || o.vals[0].u == q.vals[0].u;
                if (!dup) r.push_back(q);
            }
        return r;
    };
    for (auto& c : in.cells) {
        model::MCell o;
        o.name = c.name;
        for (auto& p : c.polys) {
            for (auto& off : canon::rep_offsets(p.rep)) {
                model::MPoly q;
                q.layer = p.layer & 0x7fff;
                q.dtype = p.dtype & 0x7fff;
                std::vector<canon::IPt> ip;
                for (auto& v : p.pts) ip.push_back(canon::rgrid(Pt{v.x + off.x, v.y + off.y}));
                canon::dedup(ip, true);
                if (ip.size() < 3) continue;
                for (auto& v : ip) q.pts.push_back(Pt{v.x * 10, v.y * 10});
                q.props = gprops(p.props);
                o.polys.push_back(q);
            }
        }
        for (auto& p : c.paths) {
            if (!p.simple) continue;
            for (auto& off : canon::rep_offsets(p.rep)) {
                model::MPath q;
                q.layer = p.layer & 0x7fff;
                q.dtype = p.dtype & 0x7fff;
                std::vector<canon::IPt> ip;
                for (auto& v : model::centre_line(p)) ip.push_back(canon::rgrid(Pt{v.x + off.x, v.y + off.y}));
                canon::dedup(ip, false);
                if (ip.size() < 2) continue;
                for (auto& v : ip) q.spine.push_back(Pt{v.x * 10, v.y * 10});
                q.hw = canon::rgrid(2 * p.hw) * 5;
                q.end = p.end == model::END_SMOOTH ? model::END_ROUND : p.end;
                q.eu = g10(p.eu);
                q.ev = g10(p.ev);
                q.scale_width = p.scale_width;
                q.props = gprops(p.props);
                o.paths.push_back(q);
            }
        }
        for (auto& l : c.labels) {
            for (auto& off : canon::rep_offsets(l.rep)) {
                model::MLabel q = l;
                q.rep = model::MRep();
                q.layer &= 0x7fff;
                q.ttype &= 0x7fff;
                q.origin = Pt{g10(l.origin.x + off.x), g10(l.origin.y + off.y)};
                q.props = gprops(l.props);
                o.labels.push_back(q);
            }
        }
        for (auto& r : c.refs) {
            bool lattice = r.rep.type == model::REP_RECT || r.rep.type == model::REP_REGULAR;
            std::vector<Pt> offs = lattice ? std::vector<Pt>{Pt{0, 0}} : canon::rep_offsets(r.rep);
            for (auto& off : offs) {
                model::MRef q = r;
                q.how = 1;
                q.origin = Pt{g10(r.origin.x + off.x), g10(r.origin.y + off.y)};
                if (lattice) {
                    q.rep.type = model::REP_REGULAR;
                    if (r.rep.type == model::REP_RECT) {
                        q.rep.v1 = Pt{g10(r.rep.sp.x), 0};
                        q.rep.v2 = Pt{0, g10(r.rep.sp.y)};
                    } else {
                        q.rep.v1 = Pt{g10(r.rep.v1.x), g10(r.rep.v1.y)};
                        q.rep.v2 = Pt{g10(r.rep.v2.x), g10(r.rep.v2.y)};
                    }
                } else {
                    q.rep = model::MRep();
                }
                q.props = gprops(r.props);
                o.refs.push_back(q);
            }
        }
        m.cells.push_back(o);
    }
    return m;
}

inline model::MLib gds_model(Rng& r, int max_cells = 5, int max_elems = 8) {
    gen::Cfg cfg;
    cfg.mode = canon::GDS;
    cfg.max_cells = max_cells;
    cfg.max_elems = max_elems;
    cfg.max_vertices = 24;
    cfg.simple_polys_only = false;
    return gdsify(gen::library(r, cfg));
}


// ------------------------------------------------------------------------------------------- OASIS data model
// Projects a model onto what an OASIS file holds: integer grid coordinates, by-name references.
inline model::MLib oasify(const model::MLib& in) {
    using model::Pt;
    model::MLib m = in;
    m.unit = 1e-6;
    auto g10 = [](model::dg_t v) { return canon::rgrid(v) * 10; };
    auto snap_rep = [&](model::MRep& r) {
        r.sp = Pt{g10(r.sp.x), g10(r.sp.y)};
        r.v1 = Pt{g10(r.v1.x), g10(r.v1.y)};
        r.v2 = Pt{g10(r.v2.x), g10(r.v2.y)};
        for (auto& o : r.offs) o = Pt{g10(o.x), g10(o.y)};
        for (auto& c : r.coords) c = g10(c);
    };
    m.ext_cells.clear();
    for (auto& c : m.cells) {
        std::vector<model::MPoly> polys;
        for (auto& p : c.polys) {
            if (p.hint == 1) {
                p.ccenter = Pt{g10(p.ccenter.x), g10(p.ccenter.y)};
                p.cradius = g10(p.cradius);
                if (p.cradius < 30) p.cradius = 30;
                p.pts.clear();
                for (int i = 0; i < 128; i++)
                    p.pts.push_back(Pt{p.ccenter.x + g10((model::dg_t)llround(p.cradius * cos(2 * M_PI * i / 128))),
                                       p.ccenter.y + g10((model::dg_t)llround(p.cradius * sin(2 * M_PI * i / 128)))});
            } else {
                std::vector<canon::IPt> ip;
                for (auto& q : p.pts) ip.push_back(canon::rgrid(q));
                canon::dedup(ip, true);
                if (ip.size() < 3) continue;
                p.pts.clear();
                for (auto& v : ip) p.pts.push_back(Pt{v.x * 10, v.y * 10});
            }
            snap_rep(p.rep);
            polys.push_back(p);
        }
        c.polys.swap(polys);
        std::vector<model::MPath> paths;
        for (auto& p : c.paths) {
            if (!p.simple) continue;
            std::vector<canon::IPt> ip;
            for (auto& q : model::centre_line(p)) ip.push_back(canon::rgrid(q));
            canon::dedup(ip, false);
            if (ip.size() < 2) continue;
            p.spine.clear();
            p.voffs.clear();
            for (auto& v : ip) p.spine.push_back(Pt{v.x * 10, v.y * 10});
            p.hw = g10(p.hw);
            p.eu = g10(p.eu);
            p.ev = g10(p.ev);
            if (p.end == model::END_ROUND || p.end == model::END_SMOOTH) p.end = model::END_FLUSH;
            p.scale_width = true;
            p.impl = 0;
            snap_rep(p.rep);
            paths.push_back(p);
        }
        c.paths.swap(paths);
        for (auto& l : c.labels) {
            l.origin = Pt{g10(l.origin.x), g10(l.origin.y)};
            l.anchor = 8;
            l.rot_deg = 0;
            l.mag = 1;
            l.xrefl = false;
            snap_rep(l.rep);
        }
        for (auto& r : c.refs) {
            r.how = 1;
            r.origin = Pt{g10(r.origin.x), g10(r.origin.y)};
            snap_rep(r.rep);
        }
    }
    return m;
}

inline model::MLib oas_model(Rng& r, int max_cells = 5, int max_elems = 8) {
    gen::Cfg cfg;
    cfg.mode = canon::OAS;
    cfg.max_cells = max_cells;
    cfg.max_elems = max_elems;
    cfg.max_vertices = 24;
    cfg.simple_polys_only = true;
    cfg.dangling = r.chance(0.3);
    cfg.force_ongrid = true;
    model::MLib m = oasify(gen::library(r, cfg));
    // near-copies placed right behind their original: the same layer, shape, text, target, repetition
    // and properties in consecutive records is what makes modal reuse (and repetition type 0) possible
    for (auto& c : m.cells) {
        auto shift = [&](model::Pt& p, model::dg_t dx, model::dg_t dy) {
            p.x += dx;
            p.y += dy;
        };
        std::vector<model::MPoly> polys;
        for (auto& p : c.polys) {
            polys.push_back(p);
            if (r.chance(0.25) && p.pts.size() < 100) {
                model::MPoly q = p;
                model::dg_t dx = (model::dg_t)r.range(-50, 50) * 10, dy = r.chance(0.3) ? 0 : (model::dg_t)r.range(-50, 50) * 10;
                for (auto& v : q.pts) shift(v, dx, dy);
                shift(q.ccenter, dx, dy);
                if (r.chance(0.3)) q.layer += 1;
                polys.push_back(q);
            }
        }
        c.polys.swap(polys);
        std::vector<model::MPath> paths;
        for (auto& p : c.paths) {
            paths.push_back(p);
            if (r.chance(0.25)) {
                model::MPath q = p;
                model::dg_t dx = (model::dg_t)r.range(-50, 50) * 10, dy = (model::dg_t)r.range(-50, 50) * 10;
                for (auto& v : q.spine) shift(v, dx, dy);
                paths.push_back(q);
            }
        }
        c.paths.swap(paths);
        std::vector<model::MLabel> labels;
        for (auto& l : c.labels) {
            labels.push_back(l);
            if (r.chance(0.3)) {
                model::MLabel q = l;
                shift(q.origin, (model::dg_t)r.range(-50, 50) * 10, r.chance(0.5) ? 0 : (model::dg_t)r.range(-50, 50) * 10);
                labels.push_back(q);
            }
        }
        c.labels.swap(labels);
        std::vector<model::MRef> refs;
        for (auto& f : c.refs) {
            refs.push_back(f);
            if (r.chance(0.3)) {
                model::MRef q = f;
                shift(q.origin, r.chance(0.5) ? 0 : (model::dg_t)r.range(-50, 50) * 10, (model::dg_t)r.range(-50, 50) * 10);
                refs.push_back(q);
            }
        }
        c.refs.swap(refs);
    }
    return m;
}

// ------------------------------------------------------------------------------------------- C18
// tier: 0 quick (sampled cuts), 1 thorough sampled, 2 thorough exhaustive sweep (small files)
inline J plan_c18(uint64_t verif_seed, uint64_t index, int tier) {
    uint64_t rs = run_seed(verif_seed, index);
    Rng root(rs);
    Rng rm = root.fork(S_MODEL), rc = root.fork(S_CHOICES), rsch = root.fork(S_SCHED),
        rf = root.fork(S_FAULT), re = root.fork(S_ENV), ro = root.fork(S_OPT);
    J plan = J::obj();
    plan.set("prop", "C18");
    plan.set("seed", J::hex(rs));
    plan.set("index", (int64_t)index);
    plan.set("heap_seed", J::hex(re.next()));
    int64_t clock0 = random_clock(re);
    plan.set("clock", clock0);

    bool oas = ro.chance(0.3);
    gen::Cfg cfg;
    cfg.mode = oas ? canon::OAS : canon::GDS;
    cfg.max_cells = (int)ro.range(1, tier == 2 ? 4 : 6);
    cfg.max_elems = (int)ro.range(1, tier == 2 ? 5 : 10);
    cfg.max_vertices = (int)ro.range(4, 24);
    cfg.simple_polys_only = true;
    cfg.neg_explicit = false;  // keep C18 inputs inside every writer's comfort zone
    cfg.compact = tier == 2;   // every prefix of the file goes through every reader: quadratic in its size
    cfg.dangling = false;
    model::MLib m = gen::library(rm, cfg);
    int source = oas ? 3 : (int)ro.below(3);  // 0 write_gds, 1 GdsWriter, 2 peer, 3 write_oas
    if (source == 2) m = gdsify(m);           // the peer encodes the GDSII data model
    J models = J::arr();
    models.push(model::to_json(m));
    plan.set("models", models);

    J ops = J::arr();
    ops.push(knobs_op(re, source == 1 ? 2 : 1, 4));  // an open writer session occupies one handle itself
    const char* F0 = oas ? "/sim/f0.oas" : "/sim/f0.gds";
    bool peer_oas_source = oas && ro.chance(0.35);
    if (peer_oas_source) {
        m = oasify(m);
        models = J::arr();
        models.push(model::to_json(m));
        plan.set("models", models);
    }
    auto make_save = [&](const char* file) {
        J s;
        if (source == 3 && peer_oas_source) {
            s = op("peer_oas");
            s.set("model", 0);
            s.set("file", file);
            Rng r2 = rc.fork(80);
            s.set("choices", oaspeer::to_json(oaspeer::random_choices(r2)));
        } else if (source == 3) {
            s = op("save_oas");
            s.set("model", 0);
            s.set("file", file);
            Rng r2 = ro.fork(77);
            oas_options(r2, s);
        } else if (source == 2) {
            s = op("peer_gds");
            s.set("model", 0);
            s.set("file", file);
            Rng r2 = rc.fork(78);
            gdspeer::Choices ch = gdspeer::random_choices(r2);
            ch.elflags = false;  // files every reader accepts without complaint
            ch.header_extras = false;
            s.set("choices", gdspeer::to_json(ch));
        } else {
            s = op("save_gds");
            s.set("model", 0);
            s.set("file", file);
            Rng r2 = ro.fork(79);
            s.set("max_points", (int64_t)pick_max_points(r2));
            s.set("ts", random_ts(r2));
            s.set("via", source == 1 ? "writer" : "lib");
        }
        return s;
    };
    auto set_clock = [&]() {
        J c = op("clock");
        c.set("set", clock0);
        ops.push(c);
    };
    set_clock();
    ops.push(make_save(F0));

    const char* const* readers = oas ? OAS_READERS : GDS_READERS;
    int nreaders = oas ? 2 : 5;
    auto add_readers = [&](const std::string& file, double p_each) {
        // readers run in a seeded order: the schedule dimension of this scenario
        std::vector<int> order;
        for (int i = 0; i < nreaders; i++) order.push_back(i);
        for (int i = nreaders - 1; i > 0; i--) std::swap(order[i], order[rsch.below(i + 1)]);
        for (int i : order) {
            if (!rsch.chance(p_each)) continue;
            J rd = op(readers[i]);
            rd.set("file", file);
            rd.set("repeat", pick_repeat(rsch));
            if (rsch.chance(0.15)) rd.set("no_error_code", true);  // the out-parameter is optional
            if (oas && i == 1 && rsch.chance(0.3)) rd.set("no_signature", true);  // so is the computed signature
            if (!oas && i == 2 && rsch.chance(0.25)) rd.set("reuse_summary", true);
            if (i == 0 && !oas && rsch.chance(0.3)) {
                static const double units[] = {1e-6, 1e-9, 1e-3};
                rd.set("unit", units[rsch.below(3)]);
                if (rsch.chance(0.5)) rd.set("tol", 1e-4);
            }
            ops.push(rd);
        }
    };

    if (tier == 2) {
        J sw = op("sweep");
        sw.set("src", F0);
        J rl = J::arr();
        for (int i = 0; i < nreaders; i++) rl.push(readers[i]);
        sw.set("readers", rl);
        sw.set("repeat_every", (int64_t)rf.range(3, 40));
        sw.set("no_error_code_every", (int64_t)rf.range(2, 9));
        if (oas) sw.set("no_signature_every", (int64_t)rf.range(3, 4));
        ops.push(sw);
    } else {
        // damage at rest: cuts at interesting places and at random offsets
        int ncuts = (int)rf.range(tier == 0 ? 3 : 6, tier == 0 ? 8 : 16);
        for (int i = 0; i < ncuts; i++) {
            J c = op("cut");
            c.set("src", F0);
            std::string dst = std::string("/sim/cut") + std::to_string(i) + (oas ? ".oas" : ".gds");
            c.set("dst", dst);
            if (!oas && rf.chance(0.75)) {
                c.set("rec", (int64_t)rf.below(100000));
                static const int64_t deltas[] = {0, 1, 2, 3, 4, 5, -1, -2, -3, 0, 6, 8};
                c.set("delta", deltas[rf.below(12)]);
            } else if (oas && rf.chance(0.3)) {
                c.set("tail_like_signature", (int64_t)rf.below(1u << 20));
            } else if (oas && rf.chance(0.6)) {
                // OASIS: header area, START record, the END record and its last bytes
                static const int64_t spots[] = {0, 1, 13, 14, 15, 16, 17, 18, 19, 20, 24, -1, -2, -3, -4, -5, -6, -7, -255, -256, -257};
                c.set("spot", spots[rf.below(21)]);
            } else {
                c.set("at", (int64_t)rf.below(1u << 30));
            }
            ops.push(c);
            add_readers(dst, 0.7);
        }
        // torn saves: the writer really dies / runs out of space at some device write
        if (source != 2 && !peer_oas_source) {
            int ntorn = (int)rf.range(1, tier == 0 ? 2 : 4);
            for (int i = 0; i < ntorn; i++) {
                std::string dst = std::string("/sim/torn") + std::to_string(i) + (oas ? ".oas" : ".gds");
                set_clock();
                J s = make_save(dst.c_str());
                s.set("ref", F0);
                J f = J::obj();
                if (rf.chance(0.7)) {
                    f.set("crash_at", (int64_t)rf.range(1, 40));
                    f.set("torn", rf.chance(0.5) ? (int64_t)rf.range(1, 64) : 0);
                } else {
                    f.set("enospc", (int64_t)rf.below(1u << 30));
                }
                s.set("fault", f);
                static const int64_t bufs[] = {0, 1, 3, 8, 32, 100, 512, 4096};
                s.set("buf", bufs[rf.below(8)]);
                ops.push(s);
                add_readers(dst, 0.8);
            }
        }
        // a reader scheduled while an incremental writer session is still open sees the durable prefix only
        if (source == 1 && rsch.chance(0.6)) {
            set_clock();
            J wo = op("writer_open");
            wo.set("w", "S");
            wo.set("file", "/sim/open.gds");
            wo.set("model", 0);
            wo.set("like_save", true);
            wo.set("ref", F0);
            {
                Rng r2 = ro.fork(79);  // the same option draws as the complete save
                wo.set("max_points", (int64_t)pick_max_points(r2));
                wo.set("ts", random_ts(r2));
            }
            static const int64_t bufs[] = {0, 0, 1, 16, 256, 4096};
            wo.set("buf", bufs[rsch.below(6)]);
            ops.push(wo);
            size_t ncell = m.cells.size();
            size_t pause = rsch.below(ncell + 1);
            for (size_t i = 0; i < ncell; i++) {
                if (i == pause) add_readers("/sim/open.gds", 0.8);
                J wc = op("writer_cell");
                wc.set("w", "S");
                wc.set("cell", (int64_t)i);
                ops.push(wc);
            }
            if (pause == ncell) add_readers("/sim/open.gds", 0.8);
            J wcl = op("writer_close");
            wcl.set("w", "S");
            ops.push(wcl);
            add_readers("/sim/open.gds", 0.4);
        }
        // control: the complete file
        add_readers(F0, 0.6);
    }
    ops.push(op("canary"));
    plan.set("ops", ops);
    return plan;
}


// ------------------------------------------------------------------------------------------- C01
// Elements that re-load as "plain elements covering the same region" get a tag of their own inside
// their cell, so that the pieces can be told apart from the other polygons after loading.
inline void isolate_region_tags(model::MLib& m, uint64_t max_points) {
    for (auto& c : m.cells) {
        uint32_t next = 30000;
        for (auto& p : c.polys)
            if (max_points > 4 && p.pts.size() > max_points) {
                p.layer = next++;
                p.dtype = 1;
                p.hint = 0;
            }
        for (auto& p : c.paths)
            if (!p.simple) {
                p.layer = next++;
                p.dtype = 2;
            }
        // nothing else may use those tags
        for (auto& p : c.polys)
            if (p.layer >= 30000 && !(max_points > 4 && p.pts.size() > max_points)) p.layer = 29999;
        for (auto& p : c.paths)
            if (p.layer >= 30000 && p.simple) p.layer = 29999;
    }
}

inline J plan_c01(uint64_t verif_seed, uint64_t index, int tier) {
    uint64_t rs = run_seed(verif_seed, index);
    Rng root(rs);
    Rng rm = root.fork(S_MODEL), rsch = root.fork(S_SCHED), re = root.fork(S_ENV), ro = root.fork(S_OPT);
    J plan = J::obj();
    plan.set("prop", "C01");
    plan.set("seed", J::hex(rs));
    plan.set("index", (int64_t)index);
    plan.set("heap_seed", J::hex(re.next()));
    plan.set("clock", random_clock(re));
    uint64_t max_points = pick_max_points(ro);
    gen::Cfg cfg;
    cfg.mode = canon::GDS;
    cfg.max_cells = (int)ro.range(1, 7);
    cfg.max_elems = (int)ro.range(1, tier ? 16 : 10);
    cfg.max_vertices = (int)ro.range(4, 40);
    // (thousands of vertices cut down to pieces of 5 to 12 take the writer most of a minute: the watchdog's business,
    // not a defect; over-long polygons meet the larger limits only)
    cfg.big_polygons = ro.chance(tier ? 0.08 : 0.03) && (max_points == 0 || max_points >= 199);
    cfg.nonsimple_paths = ro.chance(0.4);
    cfg.robust_paths = ro.chance(0.4);
    cfg.multi_element_simple_paths = true;
    cfg.rings = true;
    cfg.named_props_in_gds = true;
    cfg.long_strings = ro.chance(0.2);
    cfg.close_vertices = ro.chance(0.1);
    cfg.simple_polys_only = max_points > 4;  // fracturing is only defined for simple polygons
    cfg.vertex_limit = max_points;
    cfg.dangling = ro.chance(0.15);          // references to cells that were never added to the library
    model::MLib m = gen::library(rm, cfg);
    isolate_region_tags(m, max_points);
    J models = J::arr();
    models.push(model::to_json(m));
    plan.set("models", models);
    J ops = J::arr();
    ops.push(knobs_op(re, 2, 6));
    bool writer = ro.chance(0.35);
    J s = op("save_gds");
    s.set("model", 0);
    s.set("file", "/sim/c0.gds");
    s.set("max_points", (int64_t)max_points);
    s.set("ts", random_ts(ro));
    s.set("via", writer ? "writer" : "lib");
    if (rsch.chance(0.12)) s.set("second_save", true);
    ops.push(s);
    J l = op("load_check");
    l.set("file", "/sim/c0.gds");
    J e = J::obj();
    e.set("model", 0);
    e.set("max_points", (int64_t)max_points);
    l.set("expect", e);
    l.set("keep", "L0");
    ops.push(l);
    int cycles = (int)rsch.range(0, tier ? 5 : 3);
    for (int i = 1; i <= cycles; i++) {
        if (rsch.chance(0.5)) {
            J c = op("clock");
            if (rsch.chance(0.2))
                c.set("set", random_clock(rsch));
            else
                c.set("add", rsch.range(-100000, 400000000));
            ops.push(c);
        }
        if (rsch.chance(0.2)) ops.push(knobs_op(re, 2, 6));
        J rsv = op("resave_gds");
        rsv.set("from", "L" + std::to_string(i - 1));
        std::string f = "/sim/c" + std::to_string(i) + ".gds";
        rsv.set("file", f);
        rsv.set("max_points", (int64_t)(rsch.chance(0.8) ? max_points : 0));
        rsv.set("ts", random_ts(rsch));
        rsv.set("via", rsch.chance(0.3) ? "writer" : "lib");
        ops.push(rsv);
        J lc = op("load_check");
        lc.set("file", f);
        J ec = J::obj();
        ec.set("canon", "L0");
        lc.set("expect", ec);
        lc.set("keep", "L" + std::to_string(i));
        ops.push(lc);
    }
    plan.set("ops", ops);
    return plan;
}

// ------------------------------------------------------------------------------------------- C03
// extras of the GDSII data model that gdstk's own writer never produces
inline void c03_extras(Rng& r, model::MLib& m) {
    using model::Pt;
    static const int tri[][3] = {{3, 4, 5}, {4, 3, 5}, {5, 12, 13}, {12, 5, 13}, {8, 15, 17}, {15, 8, 17}};
    for (size_t ci = 0; ci < m.cells.size(); ci++) {
        model::MCell& c = m.cells[ci];
        for (auto& ref : c.refs) {
            if (ref.rep.type != model::REP_REGULAR) continue;
            if (ref.rep.cols * ref.rep.rows > 2000) continue;  // generated along the rotated axes already (gen::reference)
            if ((ref.rep.v1.x == 0 || ref.rep.v1.y == 0) && std::max(llabs(ref.rep.v1.x), llabs(ref.rep.v1.y)) >= 5000000000LL) {
                // an array wider than 2^31 grid steps (generator): keep the column vector, pick the rotation it
                // follows and a short row vector along the rotated y axis
                int q = ref.rep.v1.y == 0 ? (ref.rep.v1.x > 0 ? 0 : 2) : (ref.rep.v1.y > 0 ? 1 : 3);
                int64_t b = (canon::rgrid(llabs(ref.rep.v2.x) + llabs(ref.rep.v2.y)) + 1) * 10;
                ref.rot_deg = 90.0 * q;
                switch (q) {
                    case 0: ref.rep.v2 = Pt{0, b}; break;
                    case 1: ref.rep.v2 = Pt{-b, 0}; break;
                    case 2: ref.rep.v2 = Pt{0, -b}; break;
                    default: ref.rep.v2 = Pt{b, 0};
                }
                continue;
            }
            if (r.chance(0.4)) {
                // lattice exactly aligned with a rotation whose direction is an integer vector
                const int* t = tri[r.below(6)];
                int64_t a = (int64_t)r.range(1, 9) * 10, b = (int64_t)r.range(1, 9) * 10;
                ref.rot_deg = atan2((double)t[1], (double)t[0]) * (180.0 / M_PI);
                ref.rep.v1 = Pt{a * t[0], a * t[1]};
                ref.rep.v2 = Pt{-b * t[1], b * t[0]};
            } else if (r.chance(0.5)) {
                int q = (int)r.below(4);
                int64_t a = (int64_t)r.range(1, 60) * 10, b = (int64_t)r.range(1, 60) * 10;
                ref.rot_deg = 90.0 * q;
                switch (q) {
                    case 0: ref.rep.v1 = Pt{a, 0}; ref.rep.v2 = Pt{0, b}; break;
                    case 1: ref.rep.v1 = Pt{0, a}; ref.rep.v2 = Pt{-b, 0}; break;
                    case 2: ref.rep.v1 = Pt{-a, 0}; ref.rep.v2 = Pt{0, -b}; break;
                    default: ref.rep.v1 = Pt{0, -a}; ref.rep.v2 = Pt{b, 0};
                }
                if (ref.xrefl && r.chance(0.5)) ref.rep.v2 = Pt{-ref.rep.v2.x, -ref.rep.v2.y};
            } else {
                // a lattice that does not follow the rotated axes is not an AREF: the format defines the
                // second and third point as column/row pitch times count along the (rotated) array axes
                std::vector<Pt> offs;
                for (auto& o : canon::rep_offsets(ref.rep))
                    if (o.x != 0 || o.y != 0) offs.push_back(o);
                ref.rep = model::MRep();
                if (!offs.empty()) {
                    ref.rep.type = model::REP_EXPLICIT;
                    ref.rep.offs = offs;
                }
            }
        }
        // explicit repetitions become individual SREFs
        std::vector<model::MRef> expanded;
        for (auto& ref : c.refs) {
            if (ref.rep.type == model::REP_EXPLICIT) {
                for (auto& o : canon::rep_offsets(ref.rep)) {
                    model::MRef q = ref;
                    q.rep = model::MRep();
                    q.origin = Pt{ref.origin.x + o.x, ref.origin.y + o.y};
                    expanded.push_back(q);
                }
            } else {
                expanded.push_back(ref);
            }
        }
        c.refs.swap(expanded);
    }
}

inline J plan_c03(uint64_t verif_seed, uint64_t index, int tier) {
    uint64_t rs = run_seed(verif_seed, index);
    Rng root(rs);
    Rng rm = root.fork(S_MODEL), rc = root.fork(S_CHOICES), rsch = root.fork(S_SCHED), re = root.fork(S_ENV),
        ro = root.fork(S_OPT);
    J plan = J::obj();
    plan.set("prop", "C03");
    plan.set("seed", J::hex(rs));
    plan.set("index", (int64_t)index);
    plan.set("heap_seed", J::hex(re.next()));
    plan.set("clock", random_clock(re));
    J ops = J::arr();
    ops.push(knobs_op(re, 2, 6));
    J models = J::arr();
    bool dir1 = ro.chance(0.6);
    if (dir1) {
        gen::Cfg cfg;
        cfg.mode = canon::GDS;
        cfg.max_cells = (int)ro.range(1, 6);
        cfg.max_elems = (int)ro.range(1, tier ? 14 : 9);
        cfg.max_vertices = (int)ro.range(4, 40);
        cfg.dangling = ro.chance(0.15);
        cfg.long_strings = ro.chance(0.2);
        model::MLib m = gdsify(gen::library(rm, cfg));
        c03_extras(rm, m);
        models.push(model::to_json(m));
        J p = op("peer_gds");
        p.set("model", 0);
        p.set("file", "/sim/p.gds");
        p.set("choices", gdspeer::to_json(gdspeer::random_choices(rc)));
        ops.push(p);
        int loads = (int)rsch.range(1, 3);
        for (int i = 0; i < loads; i++) {
            J l = op("load_check");
            l.set("file", "/sim/p.gds");
            J e = J::obj();
            e.set("model", 0);
            l.set("expect", e);
            if (rsch.chance(0.35)) {
                static const double units[] = {1e-6, 1e-9, 1e-3, 2.5e-7, 1.0, 2e-9, 1.001e-6};
                l.set("unit", units[rsch.below(7)]);
            }
            if (rsch.chance(0.3)) l.set("tol", 1e-3);
            ops.push(l);
            if (rsch.chance(0.3)) ops.push(knobs_op(re, 2, 6));
        }
    } else {
        uint64_t max_points = pick_max_points(ro);
        gen::Cfg cfg;
        cfg.mode = canon::GDS;
        cfg.max_cells = (int)ro.range(1, 6);
        cfg.max_elems = (int)ro.range(1, tier ? 14 : 9);
        cfg.max_vertices = (int)ro.range(4, 40);
        cfg.big_polygons = ro.chance(0.04) && (max_points == 0 || max_points >= 199);
        cfg.nonsimple_paths = ro.chance(0.3);
        cfg.robust_paths = ro.chance(0.3);
        cfg.multi_element_simple_paths = true;
        cfg.rings = true;
        cfg.named_props_in_gds = true;
        cfg.long_strings = ro.chance(0.2);
        cfg.simple_polys_only = max_points > 4;
        cfg.vertex_limit = max_points;
        model::MLib m = gen::library(rm, cfg);
        isolate_region_tags(m, max_points);
        models.push(model::to_json(m));
        if (ro.chance(0.3)) {
            // an incremental writer session over several turns, the clock moving in between: every
            // structure must still carry the session's timestamp
            J wo = op("writer_open");
            wo.set("w", "S");
            wo.set("file", "/sim/g.gds");
            wo.set("model", 0);
            wo.set("like_save", true);
            wo.set("max_points", (int64_t)max_points);
            wo.set("ts", random_ts(ro));
            ops.push(wo);
            for (size_t i = 0; i < m.cells.size(); i++) {
                if (rsch.chance(0.5)) {
                    J c = op("clock");
                    c.set("add", rsch.range(1, 100000000));
                    ops.push(c);
                }
                J wc = op("writer_cell");
                wc.set("w", "S");
                wc.set("cell", (int64_t)i);
                ops.push(wc);
            }
            J wcl = op("writer_close");
            wcl.set("w", "S");
            ops.push(wcl);
        } else {
            J s = op("save_gds");
            s.set("model", 0);
            s.set("file", "/sim/g.gds");
            s.set("max_points", (int64_t)max_points);
            s.set("ts", random_ts(ro));
            s.set("via", ro.chance(0.35) ? "writer" : "lib");
            if (rsch.chance(0.12)) s.set("second_save", true);
            ops.push(s);
        }
        J pc = op("peer_check");
        pc.set("file", "/sim/g.gds");
        J e = J::obj();
        e.set("model", 0);
        e.set("max_points", (int64_t)max_points);
        pc.set("expect", e);
        ops.push(pc);
    }
    plan.set("models", models);
    plan.set("ops", ops);
    return plan;
}

// ------------------------------------------------------------------------------------------- C17
// Discrete-event scheduler: actors (sessions that share files and handles) are small scripts; each
// executed step schedules the actor's next one after a seeded delay; the heap of (time, seq) decides
// the interleaving; when nothing is due the clock jumps to the next event.
struct Des {
    struct Ev {
        int64_t at;
        uint64_t seq;
        int actor;
        bool operator<(const Ev& o) const { return at != o.at ? at > o.at : seq > o.seq; }
    };
    std::vector<Ev> heap;
    uint64_t seq = 0;
    void push(int64_t at, int actor) {
        heap.push_back(Ev{at, seq++, actor});
        std::push_heap(heap.begin(), heap.end());
    }
    bool pop(Ev& e) {
        if (heap.empty()) return false;
        std::pop_heap(heap.begin(), heap.end());
        e = heap.back();
        heap.pop_back();
        return true;
    }
};

inline J random_filter(Rng& r, const model::MLib& m) {
    std::vector<std::pair<uint32_t, uint32_t>> tags;
    for (auto& c : m.cells) {
        for (auto& p : c.polys) tags.push_back({p.layer, p.dtype});
        for (auto& p : c.paths) tags.push_back({p.layer, p.dtype});
    }
    J f = J::arr();
    int n = (int)r.range(0, 3);
    if (r.chance(0.2)) {
        // filters around the sizes at which a hashed set grows
        static const int sizes[] = {4, 5, 7, 8, 9, 15, 16, 17, 31, 32, 33, 64};
        n = sizes[r.below(12)];
    }
    for (int i = 0; i < n; i++) {
        J t = J::arr();
        if (!tags.empty() && r.chance(0.8)) {
            auto& tg = tags[r.below(tags.size())];
            // (a 16-bit field above 32767 is sign-extended by the loader: the filter names the tag as it loads)
            auto as_loaded = [](uint32_t v) { return (int64_t)(v >= 32768 && v <= 65535 ? (v | 0xFFFF0000u) : v); };
            t.push(as_loaded(tg.first));
            t.push(r.chance(0.85) ? as_loaded(tg.second) : (int64_t)tg.second + 1);
        } else {
            t.push((int64_t)r.below(10));
            t.push((int64_t)r.below(10));
        }
        f.push(t);
    }
    return f;
}

// a filter together with the way it is built: extra tags (close relatives of the wanted ones: same layer, next
// type, ...) are added in between and deleted again before the set is used
inline void filter_with_build(Rng& r, J& o, const J& filter) {
    o.set("filter", filter);
    if (filter.k != J::Arr || !r.chance(0.35)) return;
    std::vector<std::array<int64_t, 3>> all;
    std::set<std::pair<int64_t, int64_t>> wanted;
    for (auto& t : filter.a) wanted.insert({t.a[0].i, t.a[1].i});
    for (auto& w : wanted) all.push_back({w.first, w.second, 1});
    int extra = (int)r.range(1, 6);
    std::set<std::pair<int64_t, int64_t>> gone;
    for (int i = 0; i < extra * 4 && (int)gone.size() < extra; i++) {
        std::pair<int64_t, int64_t> e;
        if (!wanted.empty() && r.chance(0.6)) {
            auto it = wanted.begin();
            std::advance(it, (long)r.below(wanted.size()));
            e = {it->first + (int64_t)r.range(-2, 2), it->second + (int64_t)r.range(-2, 2)};
        } else {
            e = {(int64_t)r.below(12), (int64_t)r.below(12)};
        }
        // (layer and type are 32-bit fields: a relative of 4294967295 must not wrap round onto a wanted tag)
        if (e.first < 0 || e.second < 0 || e.first > 0xFFFFFFFFLL || e.second > 0xFFFFFFFFLL || wanted.count(e) || !gone.insert(e).second) continue;
        all.push_back({e.first, e.second, 0});
    }
    for (size_t i = all.size(); i > 1; i--) std::swap(all[i - 1], all[r.below(i)]);
    J b = J::arr();
    for (auto& t : all) {
        J e = J::arr();
        e.push(t[0]);
        e.push(t[1]);
        e.push(t[2]);
        b.push(e);
    }
    o.set("filter_build", b);
}

inline J plan_c17(uint64_t verif_seed, uint64_t index, int tier) {
    uint64_t rs = run_seed(verif_seed, index);
    Rng root(rs);
    Rng rm = root.fork(S_MODEL), rc = root.fork(S_CHOICES), rsch = root.fork(S_SCHED), rf = root.fork(S_FAULT),
        re = root.fork(S_ENV), ro = root.fork(S_OPT);
    J plan = J::obj();
    plan.set("prop", "C17");
    plan.set("seed", J::hex(rs));
    plan.set("index", (int64_t)index);
    plan.set("heap_seed", J::hex(re.next()));
    int64_t t0 = random_clock(re);
    plan.set("clock", t0);
    gen::Cfg cfg;
    cfg.mode = canon::GDS;
    cfg.max_cells = (int)ro.range(1, 6);
    cfg.max_elems = (int)ro.range(1, tier ? 12 : 8);
    cfg.max_vertices = (int)ro.range(4, 24);
    cfg.simple_polys_only = false;
    cfg.dangling = ro.chance(0.25);  // references to structures the file does not hold
    cfg.long_strings = ro.chance(0.2);  // header and text records up to the size of one record
    int source = (int)ro.below(3);  // 0 write_gds, 1 GdsWriter, 2 peer
    model::MLib m = gen::library(rm, cfg);
    if (source == 2) {
        m = gdsify(m);
        c03_extras(rm, m);
    }
    if (source != 2 && ro.chance(0.012)) {
        // a structure of more than a megabyte (a rectangle repeated 150 x 150 times is 22 500 BOUNDARY
        // elements in the file): raw cells are copied in one piece whatever their size
        model::MCell big;
        big.name = "BIG_" + std::to_string(ro.below(1000));
        model::MPoly p;
        p.layer = (uint32_t)ro.below(20);
        p.dtype = (uint32_t)ro.below(20);
        model::dg_t x0 = (model::dg_t)ro.range(-500, 500) * 10, y0 = (model::dg_t)ro.range(-500, 500) * 10;
        p.pts = {model::Pt{x0, y0}, model::Pt{x0 + 40, y0}, model::Pt{x0 + 40, y0 + 30}, model::Pt{x0, y0 + 30}};
        p.rep.type = model::REP_RECT;
        p.rep.cols = 150;
        p.rep.rows = 150;
        p.rep.sp = model::Pt{60, 50};
        big.polys.push_back(p);
        m.cells.push_back(big);
    }
    if (ro.chance(0.06)) {
        // dozens to hundreds of distinct tags in one file: the tag sets behind the summary and the filter grow
        // several times, and pairs that differ only in the layer or only in the type sit next to each other
        model::MCell tc;
        tc.name = "TAGS_" + std::to_string(ro.below(1000));
        static const int counts[] = {3, 4, 5, 7, 8, 9, 15, 16, 17, 31, 32, 33, 63, 64, 65, 127, 128, 129, 200};
        int n = counts[ro.below(19)];
        int cols = (int)ro.range(1, 12);
        for (int i = 0; i < n; i++) {
            uint32_t layer = (uint32_t)(i % cols), type = (uint32_t)(i / cols);
            if (ro.chance(0.5)) std::swap(layer, type);
            model::dg_t x0 = (model::dg_t)(i * 30) * 10, y0 = (model::dg_t)ro.range(-50, 50) * 10;
            if (i % 3 != 2) {
                model::MPoly p;
                p.layer = layer;
                p.dtype = type;
                p.pts = {model::Pt{x0, y0}, model::Pt{x0 + 200, y0}, model::Pt{x0 + 200, y0 + 100}, model::Pt{x0, y0 + 100}};
                tc.polys.push_back(p);
            } else {
                model::MLabel l;
                l.text = "t" + std::to_string(i);
                l.layer = layer;
                l.ttype = type;
                l.origin = model::Pt{x0, y0};
                tc.labels.push_back(l);
            }
        }
        m.cells.push_back(tc);
    }
    // files gdstk writes for tags above 32767 (the field is a signed 16-bit number: out of the format's range,
    // but "any file produced by gdstk" all the same): nothing is said here about what such a tag loads as,
    // only that every shortcut agrees with the full load
    bool wild_tags = source != 2 && ro.chance(0.1);
    if (wild_tags) {
        static const uint32_t wild[] = {32768, 40000, 50000, 65535};
        for (auto& c : m.cells) {
            for (auto& p : c.polys)
                if (ro.chance(0.3)) {
                    (ro.chance(0.5) ? p.layer : p.dtype) = wild[ro.below(4)];
                    if (ro.chance(0.3)) p.layer = p.dtype = 65535;  // loads as "all bits set"
                }
            for (auto& p : c.paths)
                if (ro.chance(0.3)) (ro.chance(0.5) ? p.layer : p.dtype) = wild[ro.below(4)];
            for (auto& l : c.labels)
                if (ro.chance(0.3)) (ro.chance(0.5) ? l.layer : l.ttype) = wild[ro.below(4)];
        }
    }
    // a second small model supplies fresh cells for writer sessions (names must not clash with the first)
    gen::Cfg cfg2 = cfg;
    cfg2.max_cells = 3;
    cfg2.max_elems = 4;
    Rng rm2 = rm.fork(9);
    model::MLib m2 = gen::library(rm2, cfg2);
    m2.unit = m.unit;
    m2.precision = m.precision;
    for (auto& c : m2.cells) {
        std::string old = c.name;
        c.name = "N_" + c.name;
        for (auto& c3 : m2.cells)
            for (auto& rr : c3.refs)
                if (rr.target == old) rr.target = c.name;
    }
    J models = J::arr();
    models.push(model::to_json(m));
    models.push(model::to_json(m2));
    plan.set("models", models);

    const char* F = "/sim/f.gds";
    J ops = J::arr();
    ops.push(knobs_op(re, 6, 10));
    // the Author's first two steps are fixed: produce F and take the reference full load
    if (source == 2) {
        J p = op("peer_gds");
        p.set("model", 0);
        p.set("file", F);
        gdspeer::Choices ch = gdspeer::random_choices(rc);
        ch.elflags = false;
        ch.header_extras = false;
        p.set("choices", gdspeer::to_json(ch));
        ops.push(p);
    } else {
        J s = op("save_gds");
        s.set("model", 0);
        s.set("file", F);
        s.set("max_points", 0);
        s.set("ts", random_ts(ro));
        s.set("via", source == 1 ? "writer" : "lib");
        ops.push(s);
    }
    {
        J l = op("load_check");
        l.set("file", F);
        if (!wild_tags) {
            J e = J::obj();
            e.set("model", 0);
            l.set("expect", e);
        }
        l.set("keep", "FULL");
        ops.push(l);
    }
    // actors: 0 loader A, 1 loader B, 2 raw holder X, 3 raw holder Y, 4 stamper, 5 environment, 6 writer session
    struct Actor {
        int kind;
        int steps_left;
        int phase = 0;
        std::string name;
    };
    std::vector<Actor> actors;
    actors.push_back({0, (int)rsch.range(2, 6), 0, "LA"});
    if (rsch.chance(0.5)) actors.push_back({0, (int)rsch.range(1, 4), 0, "LB"});
    int nraw = (int)rsch.range(0, 2);
    for (int i = 0; i < nraw; i++) actors.push_back({2, 0, 0, i == 0 ? "RX" : "RY"});
    int nstamp = rsch.chance(0.6) ? (int)rsch.range(1, 2) : 0;
    if (nstamp) actors.push_back({4, nstamp, 0, "ST"});
    actors.push_back({5, (int)rsch.range(0, 3), 0, "ENV"});
    bool session = nraw > 0 && rsch.chance(0.6);
    if (session) actors.push_back({6, 0, 0, "WS"});
    Des des;
    for (size_t i = 0; i < actors.size(); i++) des.push(t0 + (int64_t)rsch.range(1, 1000), (int)i);
    int64_t now = t0;
    Des::Ev ev;
    int guard = 0;
    int ndest = 0;
    while (des.pop(ev) && guard++ < 200) {
        if (ev.at > now) {
            J c = op("clock");
            c.set("set", ev.at);
            ops.push(c);
            now = ev.at;
        }
        Actor& a = actors[ev.actor];
        int64_t delay = rsch.chance(0.15) ? rsch.range(100000, 400000000) : rsch.range(1, 5000);
        bool again = false;
        switch (a.kind) {
            case 0: {  // loader
                if (a.steps_left-- <= 0) break;
                again = a.steps_left > 0;
                switch (rsch.below(6)) {
                    case 0: {
                        J o = op("info_check");
                        o.set("file", F);
                        ops.push(o);
                    } break;
                    case 1: {
                        J o = op("gds_units");
                        o.set("file", F);
                        o.set("repeat", 1);
                        ops.push(o);
                    } break;
                    case 2: {
                        J o = op("gds_timestamp");
                        o.set("file", F);
                        o.set("repeat", 1);
                        ops.push(o);
                    } break;
                    case 3: {
                        J o = op("load_check");
                        o.set("file", F);
                        J e = J::obj();
                        e.set("canon", "FULL");
                        o.set("expect", e);
                        filter_with_build(rsch, o, random_filter(rsch, m));
                        ops.push(o);
                    } break;
                    case 4: {
                        J o = op("load_check");
                        o.set("file", F);
                        J e = J::obj();
                        e.set("canon", "FULL");
                        o.set("expect", e);
                        // (2e-9, 5e-9, 1e-10, 1.001e-6: close to the units files really have, without being them)
                        static const double units[] = {1e-6, 1e-9, 1e-3, 2.5e-7, 1.0, 2.54e-5, 2e-9, 5e-9, 1e-10, 1.001e-6};
                        o.set("unit", units[rsch.below(10)]);
                        if (rsch.chance(0.3)) filter_with_build(rsch, o, random_filter(rsch, m));
                        ops.push(o);
                    } break;
                    default: {
                        J o = op("load_check");
                        o.set("file", F);
                        J e = J::obj();
                        e.set("canon", "FULL");
                        o.set("expect", e);
                        ops.push(o);
                    }
                }
            } break;
            case 2: {  // raw holder: open, then drains / partial clears, finally clear everything
                if (a.phase == 0) {
                    J o = op("raw_open");
                    o.set("file", F);
                    o.set("slot", a.name);
                    ops.push(o);
                    a.phase = 1;
                    a.steps_left = (int)rsch.range(1, 3);
                    again = true;
                } else if (a.phase == 1 && a.steps_left-- > 0) {
                    if (rsch.chance(0.75)) {
                        J o = op("raw_drain");
                        o.set("slot", a.name);
                        o.set("file", "/sim/d" + std::to_string(ndest++) + ".gds");
                        J pick = J::arr();
                        int n = (int)rsch.range(1, 3);
                        for (int i = 0; i < n; i++) pick.push((int64_t)rsch.below(1000));
                        o.set("pick", pick);
                        o.set("ts", random_ts(rsch));
                        ops.push(o);
                    } else {
                        J o = op("raw_clear");
                        o.set("slot", a.name);
                        o.set("order", (int64_t)rsch.below(1u << 30));
                        o.set("count", (int64_t)rsch.range(1, 2));
                        ops.push(o);
                    }
                    again = true;
                } else if (a.phase == 1) {
                    J o = op("raw_clear");
                    o.set("slot", a.name);
                    o.set("order", (int64_t)rsch.below(1u << 30));
                    ops.push(o);
                    a.phase = 2;
                }
            } break;
            case 4: {  // stamper
                if (a.steps_left-- <= 0) break;
                again = a.steps_left > 0;
                J o = op("stamp");
                o.set("file", F);
                o.set("ts", random_ts(rsch));
                if (rsch.chance(0.2)) {
                    o.set("ts_from", rsch.chance(0.6) ? "library" : "structure");
                    o.set("ts_index", (int64_t)rsch.below(8));
                }
                if (rf.chance(0.25)) {
                    J f = J::obj();
                    f.set("crash_at", (int64_t)rf.range(1, 20));
                    f.set("torn", rf.chance(0.5) ? (int64_t)rf.range(1, 23) : 0);
                    o.set("fault", f);
                    static const int64_t bufs[] = {0, 1, 5, 24, 100, 4096};
                    o.set("buf", bufs[rf.below(6)]);
                }
                ops.push(o);
            } break;
            case 5: {  // environment
                if (a.steps_left-- <= 0) break;
                again = a.steps_left > 0;
                ops.push(knobs_op(re, 6, 10));
            } break;
            case 6: {  // incremental writer session mixing fresh cells and raw cells over several turns
                if (a.phase == 0) {
                    J o = op("writer_open");
                    o.set("w", "W");
                    o.set("file", "/sim/s.gds");
                    o.set("model", 1);
                    o.set("units_of", "RX");
                    o.set("ts", random_ts(rsch));
                    ops.push(o);
                    a.phase = 1;
                    a.steps_left = (int)rsch.range(1, 5);
                    again = true;
                } else if (a.phase == 1 && a.steps_left-- > 0) {
                    if (rsch.chance(0.5)) {
                        J o = op("writer_cell");
                        o.set("w", "W");
                        o.set("cell", (int64_t)rsch.below(100));
                        ops.push(o);
                    } else {
                        J o = op("writer_raw");
                        o.set("w", "W");
                        o.set("slot", rsch.chance(0.8) ? "RX" : "RY");
                        J pick = J::arr();
                        pick.push((int64_t)rsch.below(1000));
                        o.set("pick", pick);
                        ops.push(o);
                    }
                    again = true;
                } else if (a.phase == 1) {
                    J o = op("writer_close");
                    o.set("w", "W");
                    if (wild_tags) o.set("lenient_container", true);
                    ops.push(o);
                    a.phase = 2;
                }
            } break;
        }
        if (again) des.push(now + delay, ev.actor);
    }
    // the OASIS shortcut: precision query against the full OASIS load of the same library
    if (ro.chance(0.3) && source != 2) {
        J so = op("save_oas");
        so.set("model", 0);
        so.set("file", "/sim/q.oas");
        Rng r2 = ro.fork(81);
        oas_options(r2, so);
        ops.push(so);
        J q = op("oas_precision");
        q.set("file", "/sim/q.oas");
        q.set("repeat", 1);
        q.set("against_full_load", true);
        ops.push(q);
    }
    // closing full load: whatever happened, F still loads to the same layout
    {
        J l = op("load_check");
        l.set("file", F);
        J e = J::obj();
        e.set("canon", "FULL");
        l.set("expect", e);
        ops.push(l);
    }
    plan.set("ops", ops);
    return plan;
}

// ------------------------------------------------------------------------------------------- C02
inline J plan_c02(uint64_t verif_seed, uint64_t index, int tier) {
    uint64_t rs = run_seed(verif_seed, index);
    Rng root(rs);
    Rng rm = root.fork(S_MODEL), rsch = root.fork(S_SCHED), rf = root.fork(S_FAULT), re = root.fork(S_ENV), ro = root.fork(S_OPT);
    J plan = J::obj();
    plan.set("prop", "C02");
    plan.set("seed", J::hex(rs));
    plan.set("index", (int64_t)index);
    plan.set("heap_seed", J::hex(re.next()));
    plan.set("clock", random_clock(re));
    gen::Cfg cfg;
    cfg.mode = canon::OAS;
    cfg.max_cells = (int)ro.range(1, 7);
    cfg.max_elems = (int)ro.range(1, tier ? 16 : 10);
    cfg.max_vertices = (int)ro.range(4, 40);
    cfg.big_polygons = ro.chance(0.02);
    // C02 quantifies over simple paths only (paths written as outlines are C04's: finding F30)
    cfg.nonsimple_paths = false;
    cfg.robust_paths = ro.chance(0.4);
    cfg.multi_element_simple_paths = true;
    cfg.rings = true;
    cfg.named_props_in_gds = true;
    cfg.long_strings = ro.chance(0.2);
    cfg.simple_polys_only = true;
    cfg.dangling = ro.chance(0.35);
    model::MLib m = gen::library(rm, cfg);
    J models = J::arr();
    models.push(model::to_json(m));
    plan.set("models", models);
    J ops = J::arr();
    ops.push(knobs_op(re, 2, 6));
    // the configuration space is swept systematically across run indices and randomised on top
    uint64_t combo = (index * 2654435761ULL + (verif_seed % 5120)) % 5120;
    int64_t flags = (int64_t)(combo % 256), level = (int64_t)((combo / 256) % 10);
    double tol = (combo / 2560) ? 0.01 * (m.precision / m.unit) * (double)ro.range(1, 200) : 0.0;
    J s = op("save_oas");
    s.set("model", 0);
    s.set("file", "/sim/o0.oas");
    s.set("flags", flags);
    s.set("level", level);
    s.set("tol", tol);
    if (rsch.chance(0.12)) s.set("second_save", true);
    ops.push(s);
    auto add_validate = [&](const std::string& f) {
        J v = op("validate_check");
        v.set("file", f);
        ops.push(v);
    };
    add_validate("/sim/o0.oas");
    J l = op("load_check_oas");
    l.set("file", "/sim/o0.oas");
    J e = J::obj();
    e.set("model", 0);
    l.set("expect", e);
    l.set("circle_tol", tol);
    l.set("keep", "L0");
    l.set("level_class", level == 0 ? 0 : 1);
    if (rsch.chance(0.2)) {
        l.set("tol", 1e-3 * (m.precision / m.unit));
    } else if (rsch.chance(0.25)) {
        // (never together with an explicit tolerance: that one is in units of the target unit)
        static const double units[] = {1e-9, 1e-3, 2.5e-7, 1e-6};
        l.set("unit", units[rsch.below(4)]);
    }
    ops.push(l);
    int cycles = (int)rsch.range(0, tier ? 4 : 2);
    for (int i = 1; i <= cycles; i++) {
        if (rsch.chance(0.2)) ops.push(knobs_op(re, 2, 6));
        J rsv = op("resave_oas");
        rsv.set("from", "L" + std::to_string(i - 1));
        std::string f = "/sim/o" + std::to_string(i) + ".oas";
        rsv.set("file", f);
        rsv.set("flags", (int64_t)(rsch.chance(0.5) ? flags : rsch.below(256)));
        rsv.set("level", (int64_t)(rsch.chance(0.5) ? level : rsch.below(10)));
        rsv.set("tol", 0.0);  // circle detection is a one-way representational change, cycle 1 only
        ops.push(rsv);
        if (rsch.chance(0.5)) add_validate(f);
        J lc = op("load_check_oas");
        lc.set("file", f);
        J ec = J::obj();
        ec.set("canon", "L0");
        lc.set("expect", ec);
        lc.set("keep", "L" + std::to_string(i));
        ops.push(lc);
    }
    // corruption of the stored, signed file: the signature must notice
    int nflip = (int)rf.range(0, 3);
    for (int i = 0; i < nflip; i++) {
        J f = op("flip");
        f.set("file", "/sim/o0.oas");
        f.set("at", (int64_t)rf.below(1u << 30));
        f.set("keep_tail", 5);
        f.set("mask", (int64_t)(rf.chance(0.6) ? (1 << rf.below(8)) : rf.range(1, 255)));
        ops.push(f);
        add_validate("/sim/o0.oas");
    }
    plan.set("ops", ops);
    return plan;
}

// ------------------------------------------------------------------------------------------- C04
inline J plan_c04(uint64_t verif_seed, uint64_t index, int tier) {
    uint64_t rs = run_seed(verif_seed, index);
    Rng root(rs);
    Rng rm = root.fork(S_MODEL), rc = root.fork(S_CHOICES), rsch = root.fork(S_SCHED), re = root.fork(S_ENV), ro = root.fork(S_OPT);
    J plan = J::obj();
    plan.set("prop", "C04");
    plan.set("seed", J::hex(rs));
    plan.set("index", (int64_t)index);
    plan.set("heap_seed", J::hex(re.next()));
    plan.set("clock", random_clock(re));
    J ops = J::arr();
    ops.push(knobs_op(re, 2, 6));
    J models = J::arr();
    bool dir1 = ro.chance(0.6);
    if (dir1) {
        model::MLib m = oas_model(rm, (int)ro.range(1, 6), (int)ro.range(1, tier ? 14 : 9));
        if (ro.chance(0.3)) {
            // labels that share their text and their leading properties (an encoder may then write those properties
            // once, on the TEXTSTRING record): copies of a label elsewhere, some with a property of their own behind
            std::vector<model::MLabel> pool;
            for (auto& c : m.cells)
                for (auto& l : c.labels)
                    if (!l.props.empty() && l.text.size() < 200) pool.push_back(l);
            for (int k = 0; k < 2 && !pool.empty() && !m.cells.empty(); k++) {
                model::MLabel l = pool[ro.below(pool.size())];
                int copies = (int)ro.range(1, 2);
                for (int i = 0; i < copies; i++) {
                    model::MLabel d = l;
                    d.origin = model::Pt{l.origin.x + 10 * (model::dg_t)ro.range(-300, 300), l.origin.y + 10 * (model::dg_t)ro.range(-300, 300)};
                    d.rep = model::MRep();
                    if (ro.chance(0.5)) {
                        model::MProp own;
                        own.name = "OWN";
                        model::MVal v;
                        v.kind = 0;
                        v.u = ro.below(1000);
                        own.vals = {v};
                        d.props.push_back(own);
                    }
                    m.cells[ro.below(m.cells.size())].labels.push_back(d);
                }
            }
        }
        models.push(model::to_json(m));
        J p = op("peer_oas");
        p.set("model", 0);
        p.set("file", "/sim/p.oas");
        p.set("choices", oaspeer::to_json(oaspeer::random_choices(rc)));
        ops.push(p);
        int loads = (int)rsch.range(1, 2);
        for (int i = 0; i < loads; i++) {
            J l = op("load_check_oas");
            l.set("file", "/sim/p.oas");
            J e = J::obj();
            e.set("model", 0);
            l.set("expect", e);
            if (rsch.chance(0.25)) {
                static const double units[] = {1e-6, 1e-9, 1e-3, 2.5e-7};
                l.set("unit", units[rsch.below(4)]);
            }
            ops.push(l);
            if (rsch.chance(0.3)) ops.push(knobs_op(re, 2, 6));
        }
        if (rsch.chance(0.5)) {
            J v = op("validate_check");
            v.set("file", "/sim/p.oas");
            ops.push(v);
        }
    } else {
        gen::Cfg cfg;
        cfg.mode = canon::OAS;
        cfg.max_cells = (int)ro.range(1, 6);
        cfg.max_elems = (int)ro.range(1, tier ? 14 : 9);
        cfg.max_vertices = (int)ro.range(4, 40);
        cfg.robust_paths = ro.chance(0.3);
        // "all libraries gdstk can write": paths that are not written as PATH records go out as the polygons of
        // their outline (C02 leaves them out, this direction of C04 does not)
        cfg.nonsimple_paths = ro.chance(0.3);
        cfg.multi_element_simple_paths = true;
        cfg.rings = true;
        cfg.named_props_in_gds = true;
        cfg.long_strings = ro.chance(0.2);
        cfg.simple_polys_only = true;
        cfg.dangling = ro.chance(0.3);
        cfg.force_ongrid = true;  // the file's statements about itself are compared with what the file holds
        model::MLib m = gen::library(rm, cfg);
        models.push(model::to_json(m));
        uint64_t combo = (index * 2654435761ULL + (verif_seed % 5120)) % 5120;
        int64_t flags = (int64_t)(combo % 256), level = (int64_t)((combo / 256) % 10);
        double tol = (combo / 2560) ? 0.01 * (m.precision / m.unit) * (double)ro.range(1, 200) : 0.0;
        J s = op("save_oas");
        s.set("model", 0);
        s.set("file", "/sim/w.oas");
        s.set("flags", flags);
        s.set("level", level);
        s.set("tol", tol);
        if (rsch.chance(0.12)) s.set("second_save", true);
        ops.push(s);
        J pc = op("peer_check_oas");
        pc.set("file", "/sim/w.oas");
        J e = J::obj();
        e.set("model", 0);
        pc.set("expect", e);
        pc.set("circle_tol", tol);
        pc.set("level_class", level == 0 ? 0 : 1);
        ops.push(pc);
        // (only without circle detection in the first save: a re-loaded circle has off-grid vertices, and
        // gdstk computes boxes from unrounded coordinates - under a magnifying reference "the truth about the
        // file" would no longer be exact, the reason why direction 2 uses on-grid models in the first place)
        if (tol == 0 && rsch.chance(0.4)) {
            // history: the library that is written was itself loaded from a file gdstk wrote under other
            // options; what the second file says about itself must be true of the second file
            J l = op("load_check_oas");
            l.set("file", "/sim/w.oas");
            J e1 = J::obj();
            e1.set("model", 0);
            l.set("expect", e1);
            l.set("circle_tol", tol);
            l.set("keep", "L0");
            l.set("level_class", level == 0 ? 0 : 1);
            ops.push(l);
            if (rsch.chance(0.5)) {
                J ed = op("edit_add_ref");
                ed.set("lib", "L0");
                ed.set("a", (int64_t)rsch.below(1000));
                ed.set("b", (int64_t)rsch.below(1000));
                ed.set("dx", rsch.range(-500, 500));
                ed.set("dy", rsch.range(-500, 500));
                ops.push(ed);
            }
            uint64_t combo2 = (uint64_t)rsch.below(5120);
            J rsv = op("resave_oas");
            rsv.set("from", "L0");
            rsv.set("file", "/sim/w2.oas");
            rsv.set("flags", (int64_t)(combo2 % 256));
            rsv.set("level", (int64_t)((combo2 / 256) % 10));
            rsv.set("tol", 0.0);
            ops.push(rsv);
            J pc2 = op("peer_check_oas");
            pc2.set("file", "/sim/w2.oas");
            J e2 = J::obj();
            e2.set("model", 0);
            pc2.set("expect", e2);
            pc2.set("circle_tol", tol);
            pc2.set("level_class", ((combo2 / 256) % 10) == 0 ? 0 : 1);
            pc2.set("resaved", true);
            ops.push(pc2);
        }
    }
    (void)rc;
    plan.set("models", models);
    plan.set("ops", ops);
    return plan;
}

inline J make_plan(const std::string& prop, uint64_t verif_seed, uint64_t index, int tier) {
    if (prop == "C18") return plan_c18(verif_seed, index, tier);
    if (prop == "C01") return plan_c01(verif_seed, index, tier);
    if (prop == "C03") return plan_c03(verif_seed, index, tier);
    if (prop == "C17") return plan_c17(verif_seed, index, tier);
    if (prop == "C02") return plan_c02(verif_seed, index, tier);
    if (prop == "C04") return plan_c04(verif_seed, index, tier);
    return J();
}

}  // namespace scen

#endif
