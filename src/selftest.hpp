// Self checks of the checker's own codecs: the peers must agree with themselves and with the sample
// files shipped in /repo/tests before they are allowed to judge gdstk.
#ifndef GDSIM_SELFTEST_HPP
#define GDSIM_SELFTEST_HPP

#include <fstream>
#include <sstream>

#include "canon.hpp"
#include "gds_peer.hpp"
#include "oas_peer.hpp"
#include "gen.hpp"
#include "scen.hpp"

namespace selftest {

inline int run(int argc, char** argv) {
    bool quick = false;
    for (int i = 2; i < argc; i++)
        if (!strcmp(argv[i], "--quick")) quick = true;
    int fails = 0;
    // 1. 8-byte reals
    static const double vals[] = {1.0, 1e-3, 1e-9, 0.5, 16.0, 1.0 / 16, 255.0, 1e-6 / 1e-9, 0.001, 123456.789, 2.54e-5, 90.0, 359.999, 7.0e-10};
    for (double v : vals) {
        for (int den = 0; den < 2; den++) {
            double back = gdspeer::real8_decode(gdspeer::real8_encode(v, den != 0));
            if (!canon::rel_close(back, v, 1e-15)) {
                printf("FAIL real8 %.17g -> %.17g\n", v, back);
                fails++;
            }
            back = gdspeer::real8_decode(gdspeer::real8_encode(-v, den != 0));
            if (!canon::rel_close(back, -v, 1e-15)) {
                printf("FAIL real8 %.17g -> %.17g\n", -v, back);
                fails++;
            }
        }
    }
    // 2. encoder . decoder = identity on the canonical form, all choices
    int n = quick ? 400 : 2000;
    for (int i = 0; i < n; i++) {
        sim::Rng r(scen::run_seed(12345, (uint64_t)i));
        sim::Rng rm = r.fork(1), rc = r.fork(2);
        model::MLib m = scen::gds_model(rm);
        gdspeer::Choices ch = gdspeer::random_choices(rc);
        bool unsup = false;
        std::vector<uint8_t> bytes = gdspeer::encode(m, ch, &unsup);
        gdspeer::Decoded d = gdspeer::decode(bytes);
        if (!d.ok || !d.strict_ok) {
            printf("FAIL gds peer: own stream rejected (run %d): %s\n", i, d.error.c_str());
            fails++;
            continue;
        }
        if (d.has_unsupported != unsup) {
            printf("FAIL gds peer: unsupported flag mismatch (run %d)\n", i);
            fails++;
        }
        canon::Options o;
        canon::CLib a = canon::from_model(m, o), b = canon::from_model(d.lib, o);
        std::string clause, why;
        if (canon::differ(a, b, true, clause, why)) {
            printf("FAIL gds peer: round trip differs (run %d): %s\n", i, why.c_str());
            fails++;
        }
    }
    // 3. the sample file shipped with the repository
    {
        std::ifstream f("/repo/tests/proof_lib.gds", std::ios::binary);
        if (f) {
            std::stringstream ss;
            ss << f.rdbuf();
            std::string s = ss.str();
            std::vector<uint8_t> bytes(s.begin(), s.end());
            gdspeer::Decoded d = gdspeer::decode(bytes);
            printf("proof_lib.gds: ok=%d strict=%d cells=%zu boundary=%llu path=%llu sref=%llu aref=%llu text=%llu %s\n",
                   d.ok, d.strict_ok, d.lib.cells.size(), (unsigned long long)d.census.boundary,
                   (unsigned long long)d.census.path, (unsigned long long)d.census.sref,
                   (unsigned long long)d.census.aref, (unsigned long long)d.census.text, d.error.c_str());
            if (!d.ok) fails++;
        }
    }
    // 4. OASIS peer: encoder . decoder = identity, all choices; circles compared by centre and radius
    {
        auto flat_circles = [](model::MLib& l) {
            for (auto& c : l.cells)
                for (auto& p : c.polys)
                    if (p.hint == 1) {
                        model::dg_t r = p.cradius;
                        p.pts = {model::Pt{p.ccenter.x - r, p.ccenter.y}, model::Pt{p.ccenter.x, p.ccenter.y - r},
                                 model::Pt{p.ccenter.x + r, p.ccenter.y}, model::Pt{p.ccenter.x, p.ccenter.y + r}};
                    }
        };
        int n2 = quick ? 600 : 3000;
        uint64_t census_special = 0, census_modal = 0, census_cblock = 0;
        for (int i = 0; i < n2; i++) {
            sim::Rng r(scen::run_seed(777, (uint64_t)i));
            sim::Rng rm = r.fork(1), rc = r.fork(2);
            model::MLib m = scen::oas_model(rm);
            oaspeer::Choices ch = oaspeer::random_choices(rc);
            std::vector<uint8_t> bytes = oaspeer::encode(m, ch);
            oaspeer::Decoded d = oaspeer::decode(bytes);
            if (!d.ok || !d.strict_ok) {
                printf("FAIL oas peer: own stream rejected (run %d): %s\n", i, d.error.c_str());
                fails++;
                continue;
            }
            census_special += d.census.rectangle + d.census.trapezoid + d.census.ctrapezoid + d.census.circle;
            census_modal += d.census.modal_reuse;
            census_cblock += d.census.cblock;
            model::MLib a = m, b = d.lib;
            for (size_t ci = 0; ci < b.cells.size() && ci < d.cells.size(); ci++)
                for (auto& pr : d.cells[ci].name_props) b.cells[ci].props.push_back(pr);
            if (!ch.special_shapes)
                for (auto& c : a.cells)
                    for (auto& p : c.polys) p.hint = 0;
            flat_circles(a);
            flat_circles(b);
            canon::Options o;
            o.mode = canon::OAS;
            canon::CLib ca = canon::from_model(a, o), cb = canon::from_model(b, o);
            std::string clause, why;
            if (canon::differ(ca, cb, false, clause, why)) {
                printf("FAIL oas peer: round trip differs (run %d): %s\n", i, why.substr(0, 600).c_str());
                fails++;
            }
        }
        printf("oas peer: %d round trips, special shapes %llu, modal reuses %llu, cblocks %llu\n", n2, (unsigned long long)census_special,
               (unsigned long long)census_modal, (unsigned long long)census_cblock);
        std::ifstream f("/repo/tests/min_length_path.oas", std::ios::binary);
        if (f) {
            std::stringstream ss;
            ss << f.rdbuf();
            std::string s = ss.str();
            std::vector<uint8_t> bytes(s.begin(), s.end());
            oaspeer::Decoded d = oaspeer::decode(bytes);
            printf("min_length_path.oas: ok=%d strict=%d cells=%zu paths=%llu polygons=%llu %s\n", d.ok, d.strict_ok, d.lib.cells.size(),
                   (unsigned long long)d.census.path, (unsigned long long)d.census.polygon, d.error.c_str());
            if (!d.ok) fails++;
        }
    }
    printf("selftest: %d failure(s)\n", fails);
    return fails ? 1 : 0;
}

}  // namespace selftest

#endif
