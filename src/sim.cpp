// gdsim -- implementation of the simulated world and of the link-time seams (-Wl,--wrap=...)
#define _GNU_SOURCE 1
#include "sim.hpp"

#include <errno.h>
#include <stdarg.h>
#include <stdlib.h>
#include <sys/mman.h>
#include <time.h>
#include <unistd.h>

#include <algorithm>

#if defined(__SANITIZE_ADDRESS__)
#include <sanitizer/asan_interface.h>
#define SIM_ASAN 1
#else
#define SIM_ASAN 0
#define ASAN_POISON_MEMORY_REGION(a, s) ((void)(a), (void)(s))
#define ASAN_UNPOISON_MEMORY_REGION(a, s) ((void)(a), (void)(s))
#endif

extern "C" {
FILE* __real_fopen(const char*, const char*);
int __real_fclose(FILE*);
size_t __real_fread(void*, size_t, size_t, FILE*);
size_t __real_fwrite(const void*, size_t, size_t, FILE*);
int __real_putc(int, FILE*);
int __real_fputc(int, FILE*);
int __real_fseek(FILE*, long, int);
long __real_ftell(FILE*);
int __real_feof(FILE*);
int __real_ferror(FILE*);
int __real_fflush(FILE*);
int __real_fileno(FILE*);
ssize_t __real_pread(int, void*, size_t, off_t);
time_t __real_time(time_t*);
struct tm* __real_localtime_r(const time_t*, struct tm*);
}

// value of the guarded hook in /repo/src/library.cpp (0 = the shipped 1 MiB)
extern "C" {
uint64_t gdstk_verif_oas_buffer_size = 0;
}

namespace sim {

World* W = nullptr;

// ================================================================= Trace
void Trace::ev(const char* kind, uint64_t a, uint64_t b, uint64_t c) {
    seq++;
    uint64_t k = 0xcbf29ce484222325ULL;
    for (const char* p = kind; *p; p++) k = (k ^ (uint8_t)*p) * 0x100000001b3ULL;
    structural = mix(structural, k);
    structural = mix(structural, a);
    structural = mix(structural, b);
    structural = mix(structural, c);
    if (verbose && out) {
        fprintf(out, "  #%llu %s %llu %llu %llu\n", (unsigned long long)seq, kind,
                (unsigned long long)a, (unsigned long long)b, (unsigned long long)c);
    }
}

void Trace::bytes(const void* p, size_t n) {
    const uint8_t* b = (const uint8_t*)p;
    uint64_t h = content;
    for (size_t i = 0; i < n; i++) h = (h ^ b[i]) * 0x100000001b3ULL;
    content = mix(h, n);
}

void Trace::note(const char* fmt, ...) {
    if (!(verbose && out)) return;
    va_list ap;
    va_start(ap, fmt);
    vfprintf(out, fmt, ap);
    va_end(ap);
    fputc('\n', out);
}

// ================================================================= clock
void civil_from_time(int64_t t, struct tm* out) {
    // days since 1970-01-01, proleptic Gregorian (Howard Hinnant's algorithm)
    int64_t days = t / 86400;
    int64_t rem = t % 86400;
    if (rem < 0) {
        rem += 86400;
        days -= 1;
    }
    int64_t z = days + 719468;
    int64_t era = (z >= 0 ? z : z - 146096) / 146097;
    uint64_t doe = (uint64_t)(z - era * 146097);
    uint64_t yoe = (doe - doe / 1460 + doe / 36524 - doe / 146096) / 365;
    int64_t y = (int64_t)yoe + era * 400;
    uint64_t doy = doe - (365 * yoe + yoe / 4 - yoe / 100);
    uint64_t mp = (5 * doy + 2) / 153;
    uint64_t d = doy - (153 * mp + 2) / 5 + 1;
    uint64_t m = mp < 10 ? mp + 3 : mp - 9;
    if (m <= 2) y += 1;
    memset(out, 0, sizeof(*out));
    out->tm_year = (int)(y - 1900);
    out->tm_mon = (int)m - 1;
    out->tm_mday = (int)d;
    out->tm_hour = (int)(rem / 3600);
    out->tm_min = (int)((rem % 3600) / 60);
    out->tm_sec = (int)(rem % 60);
    int64_t wd = (days + 4) % 7;
    if (wd < 0) wd += 7;
    out->tm_wday = (int)wd;
    out->tm_isdst = 0;
}

// ================================================================= heap
static const uintptr_t ARENA_BASE = 0x500000000000ULL;
static const uint64_t ARENA_SIZE = 8ULL << 30;
static const uint64_t REDZONE = 32;

struct Block {
    uint64_t size;
    uint64_t index;
    bool live;
};

static uint8_t* arena = nullptr;
static bool arena_fixed = false;
static uint64_t arena_cur = 0;       // bump offset
static uint64_t arena_high = 0;      // high-water mark since last wipe
static std::unordered_map<uintptr_t, Block>* blocks = nullptr;

static void map_arena() {
    void* p = mmap((void*)ARENA_BASE, ARENA_SIZE, PROT_READ | PROT_WRITE,
                   MAP_PRIVATE | MAP_ANONYMOUS | MAP_NORESERVE | MAP_FIXED_NOREPLACE, -1, 0);
    if (p == MAP_FAILED || (uintptr_t)p != ARENA_BASE) {
        if (p != MAP_FAILED) munmap(p, ARENA_SIZE);
        p = mmap(nullptr, ARENA_SIZE, PROT_READ | PROT_WRITE,
                 MAP_PRIVATE | MAP_ANONYMOUS | MAP_NORESERVE, -1, 0);
        if (p == MAP_FAILED) {
            fprintf(stderr, "gdsim: cannot map heap arena\n");
            _exit(3);
        }
        arena_fixed = false;
    } else {
        arena_fixed = true;
    }
    arena = (uint8_t*)p;
    blocks = new std::unordered_map<uintptr_t, Block>();
}

bool Heap::addresses_controlled() const { return arena_fixed; }
uint64_t Heap::used() const { return arena_cur; }

void Heap::reset(uint64_t seed) {
    if (arena_high > 0) {
        ASAN_UNPOISON_MEMORY_REGION(arena, arena_high);
        madvise(arena, (arena_high + 4095) & ~4095ULL, MADV_DONTNEED);
    }
    arena_cur = 0;
    arena_high = 0;
    blocks->clear();
    junk_seed = seed;
    st = HeapStats();
    zero_is_null = false;
    zero_nulls = 0;
}

uint64_t Heap::mark() const { return arena_cur; }

uint64_t Heap::rollback(uint64_t m) {
    uint64_t leaked = 0;
    if (m >= arena_cur) return 0;
    for (auto it = blocks->begin(); it != blocks->end();) {
        if (it->first >= (uintptr_t)arena + m) {
            if (it->second.live) {
                leaked += it->second.size;
                st.live_blocks--;
                st.live_bytes -= it->second.size;
            }
            it = blocks->erase(it);
        } else {
            ++it;
        }
    }
    ASAN_UNPOISON_MEMORY_REGION(arena + m, arena_cur + REDZONE - m);
    arena_cur = m;
    return leaked;
}

static void fill_junk(uint8_t* p, uint64_t n, uint64_t seed, uint64_t index) {
    uint64_t x = seed ^ (index * 0x9e3779b97f4a7c15ULL);
    uint64_t v = splitmix64(x) | 0x0101010101010101ULL;  // never a zero byte: unterminated strings show
    uint64_t i = 0;
    for (; i + 8 <= n; i += 8) memcpy(p + i, &v, 8);
    for (; i < n; i++) p[i] = (uint8_t)(v >> (8 * (i & 7)));
}

static void heap_violation(const char* clause, const char* detail) {
    W->fs.violation(clause, detail);
    throw SimAbort{std::string(clause) + ": " + detail};
}

static void* heap_alloc(uint64_t size, bool clear) {
    Heap& H = W->heap;
    W->tick("alloc");
    if (size == 0 && H.zero_is_null) {
        H.zero_nulls++;
        return nullptr;
    }
    uint64_t rounded = (size + 15) & ~15ULL;
    if (rounded == 0) rounded = 16;
    if (arena_cur + rounded + 2 * REDZONE > ARENA_SIZE) {
        throw SimAbort{"arena_exhausted"};
    }
    uint8_t* red0 = arena + arena_cur;
    uint8_t* user = red0 + REDZONE;
    uint8_t* red1 = user + rounded;
    arena_cur += REDZONE + rounded;
    if (arena_cur + REDZONE > arena_high) arena_high = arena_cur + REDZONE;
    ASAN_UNPOISON_MEMORY_REGION(user, rounded);
    uint64_t index = H.st.allocs++;
    if (clear) {
        memset(user, 0, rounded);
    } else if (H.junk) {
        fill_junk(user, rounded, H.junk_seed, index);
    } else {
        memset(user, 0, rounded);  // arena pages are fresh zero pages anyway; keep it explicit
    }
    ASAN_POISON_MEMORY_REGION(red0, REDZONE);
    ASAN_POISON_MEMORY_REGION(red1, REDZONE);
#if SIM_ASAN
    // leave only [user, user+size) addressable (ASan handles the partial last granule)
    if (rounded > size) {
        __asan_poison_memory_region(user, rounded);
        __asan_unpoison_memory_region(user, size);
    }
#endif
    (*blocks)[(uintptr_t)user] = Block{size, index, true};
    H.st.live_blocks++;
    H.st.live_bytes += size;
    H.st.bytes_total += size;
    if (H.st.live_bytes > H.st.peak_bytes) H.st.peak_bytes = H.st.live_bytes;
    return user;
}

static void heap_free(void* ptr) {
    if (ptr == nullptr) return;
    Heap& H = W->heap;
    W->tick("free");
    auto it = blocks->find((uintptr_t)ptr);
    if (it == blocks->end()) {
        char buf[96];
        bool inside = (uint8_t*)ptr >= arena && (uint8_t*)ptr < arena + ARENA_SIZE;
        snprintf(buf, sizeof buf, "free of a pointer that is not a live block start (%s arena)",
                 inside ? "inside" : "outside");
        heap_violation("free_unknown_pointer", buf);
    }
    if (!it->second.live) {
        heap_violation("double_free", "block freed twice");
    }
    it->second.live = false;
    uint64_t rounded = (it->second.size + 15) & ~15ULL;
    if (rounded == 0) rounded = 16;
#if SIM_ASAN
    __asan_unpoison_memory_region(ptr, rounded);
#endif
    memset(ptr, 0xDD, rounded);
    ASAN_POISON_MEMORY_REGION(ptr, rounded);
    H.st.frees++;
    H.st.live_blocks--;
    H.st.live_bytes -= it->second.size;
}

static void* heap_realloc(void* ptr, uint64_t size) {
    if (ptr == nullptr) return heap_alloc(size, false);
    Heap& H = W->heap;
    auto it = blocks->find((uintptr_t)ptr);
    if (it == blocks->end()) heap_violation("realloc_unknown_pointer", "reallocate of unknown pointer");
    if (!it->second.live) heap_violation("realloc_after_free", "reallocate of a freed block");
    if (size == 0) {  // glibc: realloc(p, 0) frees p and returns NULL
        heap_free(ptr);
        return nullptr;
    }
    uint64_t old = it->second.size;
    H.st.reallocs++;
    W->faults.heap_moves++;
    void* np = heap_alloc(size, false);
    memcpy(np, ptr, old < size ? old : size);
    heap_free(ptr);
    return np;
}

// ================================================================= FS
int FS::open_count() const {
    int n = 0;
    for (Handle* h : handles)
        if (h && h->state == H_OPEN) n++;
    return n;
}

std::vector<Handle*> FS::open_handles() const {
    std::vector<Handle*> r;
    for (Handle* h : handles)
        if (h && h->state == H_OPEN) r.push_back(h);
    return r;
}

Handle* FS::find(FILE* fp) const {
    auto it = by_fp.find(fp);
    return it == by_fp.end() ? nullptr : it->second;
}

Handle* FS::find_fd(int fd) const {
    int id = fd - 1000000;
    if (id < 0 || id >= (int)handles.size()) return nullptr;
    return handles[id];
}

void FS::violation(const char* clause, const std::string& detail) {
    violations.push_back(Violation{clause, detail + " [step " + step_label + "]"});
    W->trace.ev("violation", violations.size());
}

void FS::force_close_all() {
    for (Handle* h : handles) {
        if (h && h->state == H_OPEN) {
            // the process image is gone: buffered bytes never reach the device
            h->pol.crash_at_write = 0;
            h->crashed = true;
            h->state = H_CLOSED;
        }
    }
}

void FS::reap_closed() {
    for (size_t i = 0; i < handles.size(); i++) {
        Handle* h = handles[i];
        if (!h || h->state != H_CLOSED) continue;
        h->pol.crash_at_write = 0;
        h->crashed = true;
        by_fp.erase(h->fp);
        if (h->fp) __real_fclose(h->fp);
        free(h->buf);
        delete h;
        handles[i] = nullptr;
    }
}

void FS::reset() {
    for (Handle* h : handles) {
        if (!h) continue;
        if (h->fp) {
            h->pol.crash_at_write = 0;  // nothing may reach the (dropped) files any more
            h->crashed = true;
            __real_fclose(h->fp);
        }
        free(h->buf);
        delete h;
    }
    handles.clear();
    by_fp.clear();
    files.clear();
    violations.clear();
    policy = OpenPolicy();
    fdlimit = 1 << 20;
    step_label.clear();
    write_hook = nullptr;
    write_hook_ud = nullptr;
    n_open = n_close = n_dev_read = n_dev_write = n_pread = bytes_read = bytes_written = n_open_fail = 0;
}

static ssize_t ck_read(void* cookie, char* buf, size_t size) {
    Handle* h = (Handle*)cookie;
    FS& fs = W->fs;
    if (!h->can_read) {
        errno = EBADF;
        return -1;
    }
    const std::vector<uint8_t>& d = h->file->data;
    size_t avail = h->pos < d.size() ? d.size() - h->pos : 0;
    size_t n = size < avail ? size : avail;
    if (h->pol.chunk && n > h->pol.chunk) {
        n = h->pol.chunk;
        W->faults.chunked_reads++;
    }
    if (n) memcpy(buf, d.data() + h->pos, n);
    W->trace.ev("dev_read", h->id, h->pos, n);
    W->trace.bytes(buf, n);
    h->pos += n;
    if (h->pos > h->high_water) {
        // the event budget is a livelock guard: transfers that reach new ground extend it, so that a long
        // file read or written in tiny pieces is not mistaken for a loop (re-reading old ground earns nothing)
        if (W->event_budget != INT64_MAX) W->event_budget += (int64_t)(4 * (h->pos - h->high_water));
        h->high_water = h->pos;
    }
    h->dev_reads++;
    fs.n_dev_read++;
    fs.bytes_read += n;
    return (ssize_t)n;
}

static ssize_t ck_write(void* cookie, const char* buf, size_t size) {
    Handle* h = (Handle*)cookie;
    FS& fs = W->fs;
    if (!h->can_write) {
        errno = EBADF;
        return 0;
    }
    h->dev_writes++;
    size_t apply = size;
    if (h->pol.crash_at_write >= 0 && (int64_t)h->dev_writes >= h->pol.crash_at_write) {
        // power is gone: the call "succeeds" but nothing (or only a torn prefix) becomes durable
        if ((int64_t)h->dev_writes == h->pol.crash_at_write) {
            h->crashed = true;
            W->faults.crash++;
            apply = (size_t)std::min<int64_t>((int64_t)size, h->pol.torn > 0 ? h->pol.torn : 0);
            if (apply > 0) W->faults.torn++;
        } else {
            apply = 0;
        }
        W->trace.ev("dev_write_lost", h->id, h->pos, size - apply);
    }
    bool nospace = false;
    if (h->pol.enospc_at >= 0 && (int64_t)(h->pos + apply) > h->pol.enospc_at) {
        int64_t room = h->pol.enospc_at - (int64_t)h->pos;
        apply = room > 0 ? (size_t)room : 0;
        nospace = true;
        W->faults.enospc++;
    }
    std::vector<uint8_t>& d = h->file->data;
    if (apply) {
        if (h->pos + apply > d.size()) d.resize(h->pos + apply, 0);
        memcpy(d.data() + h->pos, buf, apply);
    }
    W->trace.ev("dev_write", h->id, h->pos, apply);
    W->trace.bytes(buf, apply);
    if (fs.write_hook && apply) fs.write_hook(h, h->pos, (const uint8_t*)buf, apply, fs.write_hook_ud);
    fs.n_dev_write++;
    fs.bytes_written += apply;
    if (nospace) {
        h->pos += apply;
        errno = ENOSPC;
        return (ssize_t)apply;  // short write; glibc reports the error to the caller
    }
    h->pos += size;  // position advances as the caller believes, also for lost writes
    if (h->pos > h->high_water) {
        if (W->event_budget != INT64_MAX) W->event_budget += (int64_t)(4 * (h->pos - h->high_water));
        h->high_water = h->pos;
    }
    return (ssize_t)size;
}

static int ck_seek(void* cookie, off64_t* offset, int whence) {
    Handle* h = (Handle*)cookie;
    int64_t base = 0;
    if (whence == SEEK_CUR)
        base = (int64_t)h->pos;
    else if (whence == SEEK_END)
        base = (int64_t)h->file->data.size();
    else if (whence != SEEK_SET) {
        errno = EINVAL;
        return -1;
    }
    int64_t np = base + *offset;
    if (np < 0) {
        errno = EINVAL;
        W->trace.ev("dev_seek_neg", h->id);
        return -1;
    }
    h->pos = (uint64_t)np;
    *offset = np;
    return 0;
}

static int ck_close(void* cookie) {
    (void)cookie;
    return 0;
}

static FILE* sim_fopen(const char* name, const char* mode) {
    FS& fs = W->fs;
    W->tick("fopen");
    bool rd = false, wr = false, trunc = false, must_exist = false, create = false, append = false;
    switch (mode[0]) {
        case 'r':
            rd = true;
            must_exist = true;
            break;
        case 'w':
            wr = true;
            trunc = true;
            create = true;
            break;
        case 'a':
            wr = true;
            create = true;
            append = true;
            break;
        default:
            errno = EINVAL;
            return nullptr;
    }
    if (strchr(mode, '+')) rd = wr = true;
    W->trace.ev("fopen", fs.handles.size(), (rd ? 1 : 0) | (wr ? 2 : 0));
    if (fs.open_count() >= fs.fdlimit) {
        fs.n_open_fail++;
        W->faults.fdlimit_hits++;
        W->trace.ev("fopen_emfile");
        errno = EMFILE;
        return nullptr;
    }
    auto it = fs.files.find(name);
    if (it == fs.files.end()) {
        if (must_exist || !create) {
            fs.n_open_fail++;
            errno = ENOENT;
            return nullptr;
        }
        it = fs.files.emplace(name, SimFile()).first;
    }
    if (trunc) it->second.data.clear();
    Handle* h = new Handle();
    h->id = (int)fs.handles.size();
    h->name = name;
    h->file = &it->second;
    h->pos = append ? it->second.data.size() : 0;
    h->can_read = rd;
    h->can_write = wr;
    h->pol = fs.policy;
    h->opened_in = fs.step_label;
    cookie_io_functions_t io = {ck_read, ck_write, ck_seek, ck_close};
    FILE* fp = fopencookie(h, mode, io);
    if (!fp) {
        delete h;
        return nullptr;
    }
    if (h->pol.bufsize == 0) {
        setvbuf(fp, nullptr, _IONBF, 0);
        W->faults.small_buf++;
    } else if (h->pol.bufsize > 0) {
        h->buf = (char*)malloc((size_t)h->pol.bufsize);
        setvbuf(fp, h->buf, _IOFBF, (size_t)h->pol.bufsize);
        if (h->pol.bufsize < 4096) W->faults.small_buf++;
    }
    h->fp = fp;
    fs.handles.push_back(h);
    fs.by_fp[fp] = h;
    fs.n_open++;
    return fp;
}

// returns the handle when fp is simulated and usable; records H2 when it was closed
static Handle* live_handle(FILE* fp, const char* op) {
    Handle* h = W ? W->fs.find(fp) : nullptr;
    if (!h) return nullptr;
    W->tick(op);
    if (h->state != H_OPEN) {
        W->fs.violation("io_on_closed_handle",
                        std::string(op) + " on handle #" + std::to_string(h->id) + " (" + h->name +
                            ") after it was closed");
        return h;
    }
    return h;
}

// ================================================================= world
static ssize_t log_write(void* cookie, const char* buf, size_t n) {
    World* w = (World*)cookie;
    for (size_t i = 0; i < n; i++)
        if (buf[i] == '\n') w->log_messages++;
    return (ssize_t)n;
}

void init_world() {
    if (W) return;
    W = new World();
    map_arena();
    cookie_io_functions_t io = {nullptr, log_write, nullptr, nullptr};
    W->log_sink = fopencookie(W, "w", io);
    setvbuf(W->log_sink, nullptr, _IONBF, 0);
}

void World::begin_run(uint64_t heap_seed) {
    fs.reset();
    heap.reset(heap_seed);
    clock = Clock();
    trace.reset();
    faults = FaultCounters();
    events = 0;
    event_budget = INT64_MAX;
    log_messages = 0;
}

void World::end_run() { fs.reset(); }

void World::tick(const char* what) {
    (void)what;
    events++;
    if ((int64_t)events > event_budget) {
        event_budget = INT64_MAX;  // let the unwinding code use seams again
        fs.violation("event_budget_exhausted", "seam-event budget exhausted (livelock?)");
        throw SimAbort{"event_budget_exhausted"};
    }
}

}  // namespace sim

// ===================================================================== gdstk allocator seam
namespace gdstk {
void* allocate(uint64_t size) { return sim::heap_alloc(size, false); }
void* reallocate(void* ptr, uint64_t size) { return sim::heap_realloc(ptr, size); }
void* allocate_clear(uint64_t size) { return sim::heap_alloc(size, true); }
void free_allocation(void* ptr) { sim::heap_free(ptr); }
}  // namespace gdstk

// ===================================================================== link-time wrappers
using sim::Handle;
using sim::W;

extern "C" {

FILE* __wrap_fopen(const char* name, const char* mode) {
    if (W && sim::is_sim_name(name)) return sim::sim_fopen(name, mode);
    return __real_fopen(name, mode);
}

int __wrap_fclose(FILE* fp) {
    Handle* h = W ? W->fs.find(fp) : nullptr;
    if (!h) return __real_fclose(fp);
    W->tick("fclose");
    if (h->state != sim::H_OPEN) {
        W->fs.violation("double_close", "fclose on handle #" + std::to_string(h->id) + " (" +
                                            h->name + ") which is already closed");
        return EOF;
    }
    int r = __real_fflush(fp);  // the FILE object itself stays alive (quarantined) until end of run
    h->state = sim::H_CLOSED;
    W->fs.n_close++;
    W->trace.ev("fclose", h->id);
    return r;
}

size_t __wrap_fread(void* p, size_t size, size_t n, FILE* fp) {
    Handle* h = sim::live_handle(fp, "fread");
    if (h && h->state != sim::H_OPEN) return 0;
    return __real_fread(p, size, n, fp);
}

size_t __wrap_fwrite(const void* p, size_t size, size_t n, FILE* fp) {
    Handle* h = sim::live_handle(fp, "fwrite");
    if (h && h->state != sim::H_OPEN) return 0;
    return __real_fwrite(p, size, n, fp);
}

int __wrap_putc(int c, FILE* fp) {
    Handle* h = sim::live_handle(fp, "putc");
    if (h && h->state != sim::H_OPEN) return EOF;
    return __real_putc(c, fp);
}

int __wrap_fputc(int c, FILE* fp) {
    Handle* h = sim::live_handle(fp, "fputc");
    if (h && h->state != sim::H_OPEN) return EOF;
    return __real_fputc(c, fp);
}

int __wrap_fseek(FILE* fp, long off, int whence) {
    Handle* h = sim::live_handle(fp, "fseek");
    if (h && h->state != sim::H_OPEN) return -1;
    return __real_fseek(fp, off, whence);
}

long __wrap_ftell(FILE* fp) {
    Handle* h = sim::live_handle(fp, "ftell");
    if (h && h->state != sim::H_OPEN) return -1;
    return __real_ftell(fp);
}

int __wrap_feof(FILE* fp) {
    Handle* h = sim::live_handle(fp, "feof");
    if (h && h->state != sim::H_OPEN) return 1;
    return __real_feof(fp);
}

int __wrap_ferror(FILE* fp) {
    Handle* h = sim::live_handle(fp, "ferror");
    if (h && h->state != sim::H_OPEN) return 1;
    return __real_ferror(fp);
}

int __wrap_fflush(FILE* fp) {
    if (fp) {
        Handle* h = sim::live_handle(fp, "fflush");
        if (h && h->state != sim::H_OPEN) return EOF;
    }
    return __real_fflush(fp);
}

int __wrap_fileno(FILE* fp) {
    Handle* h = sim::live_handle(fp, "fileno");
    if (h) return 1000000 + h->id;
    return __real_fileno(fp);
}

ssize_t __wrap_pread(int fd, void* buf, size_t n, off_t off) {
    if (W && fd >= 1000000) {
        Handle* h = W->fs.find_fd(fd);
        W->tick("pread");
        if (!h) {
            errno = EBADF;
            return -1;
        }
        if (h->state != sim::H_OPEN) {
            W->fs.violation("io_on_closed_handle", "pread on descriptor of handle #" +
                                                       std::to_string(h->id) + " (" + h->name +
                                                       ") after it was closed");
            errno = EBADF;
            return -1;
        }
        if (off < 0) {
            errno = EINVAL;
            return -1;
        }
        const std::vector<uint8_t>& d = h->file->data;
        size_t avail = (uint64_t)off < d.size() ? d.size() - (size_t)off : 0;
        size_t k = n < avail ? n : avail;
        if (k) memcpy(buf, d.data() + off, k);
        W->fs.n_pread++;
        W->fs.bytes_read += k;
        W->trace.ev("pread", h->id, (uint64_t)off, k);
        W->trace.bytes(buf, k);
        return (ssize_t)k;
    }
    return __real_pread(fd, buf, n, off);
}

time_t __wrap_time(time_t* out) {
    if (!W) return __real_time(out);
    time_t t = (time_t)W->clock.now;
    W->clock.now += 1;  // no two reads observe the same instant
    W->clock.reads++;
    W->trace.ev("time", (uint64_t)t);
    if (out) *out = t;
    return t;
}

struct tm* __wrap_localtime_r(const time_t* t, struct tm* out) {
    if (!W) return __real_localtime_r(t, out);
    sim::civil_from_time((int64_t)*t, out);
    return out;
}

}  // extern "C"
