// gdsim -- simulated world for gdstk's storage path: SimFS, SimHeap, SimClock, seeded PRNG, trace hashes.
// Everything gdstk asks of its environment (streams, descriptors, clock, heap) is answered from here.
#ifndef GDSIM_SIM_HPP
#define GDSIM_SIM_HPP

#include <stdint.h>
#include <stdio.h>
#include <string.h>

#include <map>
#include <string>
#include <unordered_map>
#include <vector>

namespace sim {

// ---------------------------------------------------------------- PRNG
static inline uint64_t splitmix64(uint64_t& x) {
    uint64_t z = (x += 0x9e3779b97f4a7c15ULL);
    z = (z ^ (z >> 30)) * 0xbf58476d1ce4e5b9ULL;
    z = (z ^ (z >> 27)) * 0x94d049bb133111ebULL;
    return z ^ (z >> 31);
}

struct Rng {
    uint64_t s[4];
    explicit Rng(uint64_t seed = 0) { reseed(seed); }
    void reseed(uint64_t seed) {
        uint64_t x = seed;
        for (int i = 0; i < 4; i++) s[i] = splitmix64(x);
    }
    static inline uint64_t rotl(uint64_t x, int k) { return (x << k) | (x >> (64 - k)); }
    uint64_t next() {
        const uint64_t result = rotl(s[1] * 5, 7) * 9;
        const uint64_t t = s[1] << 17;
        s[2] ^= s[0];
        s[3] ^= s[1];
        s[1] ^= s[2];
        s[0] ^= s[3];
        s[2] ^= t;
        s[3] = rotl(s[3], 45);
        return result;
    }
    // uniform in [0, n)
    uint64_t below(uint64_t n) {
        if (n <= 1) return 0;
        return (uint64_t)(((__uint128_t)next() * n) >> 64);
    }
    int64_t range(int64_t lo, int64_t hi) {  // inclusive
        if (hi <= lo) return lo;
        return lo + (int64_t)below((uint64_t)(hi - lo) + 1);
    }
    bool chance(double p) { return (double)(next() >> 11) * (1.0 / 9007199254740992.0) < p; }
    double unit() { return (double)(next() >> 11) * (1.0 / 9007199254740992.0); }
    // independent stream derived from this generator's seed material and a purpose tag
    Rng fork(uint64_t tag) const {
        uint64_t x = s[0] ^ (s[1] * 0x9e3779b97f4a7c15ULL) ^ (tag * 0xd6e8feb86659fd93ULL);
        uint64_t y = splitmix64(x) ^ s[2];
        return Rng(y ^ (tag << 32));
    }
    template <class T>
    const T& pick(const std::vector<T>& v) {
        return v[below(v.size())];
    }
};

// ---------------------------------------------------------------- trace hashes
struct Trace {
    uint64_t structural = 0xcbf29ce484222325ULL;
    uint64_t content = 0xcbf29ce484222325ULL;
    uint64_t seq = 0;  // global event sequence number
    bool verbose = false;
    FILE* out = nullptr;
    static inline uint64_t mix(uint64_t h, uint64_t v) {
        h ^= v + 0x9e3779b97f4a7c15ULL + (h << 6) + (h >> 2);
        h *= 0x100000001b3ULL;
        return h;
    }
    void ev(const char* kind, uint64_t a = 0, uint64_t b = 0, uint64_t c = 0);
    void bytes(const void* p, size_t n);
    void note(const char* fmt, ...) __attribute__((format(printf, 2, 3)));
    void reset() {
        structural = content = 0xcbf29ce484222325ULL;
        seq = 0;
    }
};

// ---------------------------------------------------------------- abort of one run from inside a seam
struct SimAbort {
    std::string what;
};

// ---------------------------------------------------------------- SimFS
struct SimFile {
    std::vector<uint8_t> data;
};

enum HandleState { H_OPEN = 0, H_CLOSED = 1 };

struct OpenPolicy {      // applied to every simulated open that happens while it is installed
    int64_t bufsize = -1;        // -1: glibc default; 0: unbuffered; >0: own buffer of that size
    uint64_t chunk = 0;          // max bytes per device read (0 = unlimited)
    int64_t crash_at_write = -1; // from this device write (1-based) on, writes are dropped
    int64_t torn = 0;            // the crash_at-th write still applies its first `torn` bytes
    int64_t enospc_at = -1;      // device writes fail once file would exceed this many bytes
};

struct Handle {
    int id = 0;
    std::string name;
    SimFile* file = nullptr;
    uint64_t pos = 0;
    bool can_read = false, can_write = false;
    HandleState state = H_OPEN;
    FILE* fp = nullptr;
    char* buf = nullptr;
    OpenPolicy pol;
    uint64_t dev_writes = 0;
    uint64_t dev_reads = 0;
    uint64_t high_water = 0;  // highest offset reached on this handle: bytes beyond it are progress
    bool crashed = false;  // a crash fault fired on this handle
    std::string opened_in;  // step label at open time
};

struct Violation {
    std::string clause;   // short machine-readable clause id, e.g. "io_on_closed_handle"
    std::string detail;   // human-readable
};

struct FaultCounters {
    uint64_t crash = 0, torn = 0, enospc = 0, cut = 0, flip = 0, chunked_reads = 0, small_buf = 0,
             fdlimit_hits = 0, clock_jumps = 0, heap_moves = 0, heap_junk = 0;
};

typedef void (*DeviceWriteHook)(Handle* h, uint64_t off, const uint8_t* data, size_t n, void* ud);

struct FS {
    std::map<std::string, SimFile> files;
    std::vector<Handle*> handles;          // every handle of this run (open, closed)
    std::unordered_map<FILE*, Handle*> by_fp;
    OpenPolicy policy;
    int fdlimit = 1 << 20;
    std::string step_label;
    std::vector<Violation> violations;     // H2/H3 style seam violations found during the run
    DeviceWriteHook write_hook = nullptr;
    void* write_hook_ud = nullptr;
    // counters
    uint64_t n_open = 0, n_close = 0, n_dev_read = 0, n_dev_write = 0, n_pread = 0, bytes_read = 0,
             bytes_written = 0, n_open_fail = 0;

    int open_count() const;
    std::vector<Handle*> open_handles() const;
    Handle* find(FILE* fp) const;
    Handle* find_fd(int fd) const;
    void force_close_all();      // end of a crashed session / end of run
    void reap_closed();          // really release handles that were closed (long sweeps)
    void reset();                // drop everything (between runs)
    bool exists(const std::string& n) const { return files.count(n) != 0; }
    std::vector<uint8_t>& bytes(const std::string& n) { return files[n].data; }
    void put(const std::string& n, const std::vector<uint8_t>& b) { files[n].data = b; }
    void violation(const char* clause, const std::string& detail);
};

// ---------------------------------------------------------------- SimHeap
struct HeapStats {
    uint64_t allocs = 0, frees = 0, reallocs = 0, live_blocks = 0, live_bytes = 0, peak_bytes = 0,
             bytes_total = 0;
};

struct Heap {
    bool junk = true;        // fill fresh blocks with seeded junk
    bool always_move = true; // reallocate always moves
    bool zero_is_null = false; // a request for zero bytes returns NULL (as malloc may)
    uint64_t zero_nulls = 0;
    uint64_t junk_seed = 0;
    HeapStats st;
    void reset(uint64_t seed);      // wipe arena, start a new run
    uint64_t mark() const;          // bump position (checkpoint)
    uint64_t rollback(uint64_t m);  // forget every block allocated since the checkpoint; returns leaked bytes
    bool addresses_controlled() const;
    uint64_t used() const;
};

// ---------------------------------------------------------------- SimClock
struct Clock {
    int64_t now = 1700000000;  // seconds
    int64_t start = 1700000000;
    uint64_t reads = 0;
    int64_t covered = 0;  // sum of |moves|
    void set(int64_t t) {
        covered += (t > now ? t - now : now - t);
        now = t;
    }
    void advance(int64_t d) { set(now + d); }
};

// pure UTC civil time conversion (no TZ database, no environment)
void civil_from_time(int64_t t, struct tm* out);

// ---------------------------------------------------------------- the world
struct World {
    FS fs;
    Heap heap;
    Clock clock;
    Trace trace;
    FaultCounters faults;
    int64_t event_budget = INT64_MAX;   // seam events left before the run is aborted (hang guard)
    uint64_t events = 0;
    uint64_t log_messages = 0;          // lines gdstk sent to its error logger
    FILE* log_sink = nullptr;
    void begin_run(uint64_t heap_seed);
    void end_run();
    void tick(const char* what);        // one seam event; throws SimAbort when the budget is gone
};

extern World* W;     // the one world (single-threaded system)
void init_world();   // create W, map the arena, install the log sink

static const char SIM_PREFIX[] = "/sim/";
static inline bool is_sim_name(const char* n) { return n && strncmp(n, SIM_PREFIX, 5) == 0; }

}  // namespace sim

#endif
