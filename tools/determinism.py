#!/usr/bin/env python3
"""Determinism proof: every plan index is executed in several configurations and the per-run trace hashes are diffed.

  tools/determinism.py <prop> [--runs N] [--tier t] [--seed s]

configurations: asan x 16 workers, asan x 3 workers (other process boundaries), plain x 16 workers,
asan x 16 workers a second time.  Structural and content hashes must agree for every index.
Exit 0 when they all agree, 2 otherwise.
"""
import json, os, subprocess, sys, tempfile, shutil
VERIF = os.path.dirname(os.path.dirname(os.path.abspath(__file__)))
sys.path.insert(0, VERIF)
import build as builder


def run_cfg(exe, prop, tier, seed, workers, runs, wd):
    os.makedirs(wd)
    per = (runs + workers - 1) // workers
    procs = []
    for w in range(workers):
        cmd = [exe, "explore", "--prop", prop, "--tier", str(tier), "--seed", str(seed), "--start", str(w), "--stride", str(workers),
               "--runs", str(per), "--out", os.path.join(wd, "w%d.json" % w), "--hashes", os.path.join(wd, "w%d.hashes" % w)]
        procs.append(subprocess.Popen(cmd, stdout=subprocess.DEVNULL, stderr=subprocess.DEVNULL))
    for p in procs:
        p.wait()
    res = {}
    for w in range(workers):
        try:
            for line in open(os.path.join(wd, "w%d.hashes" % w)):
                _, idx, hs, hc, nv = line.split()
                res[int(idx)] = (hs, hc, nv)
        except OSError:
            pass
    return res


def main():
    args = sys.argv[1:]
    prop = args[0]
    opts = dict(zip(args[1::2], args[2::2]))
    runs = int(opts.get("--runs", 2000))
    tier = int(opts.get("--tier", 0))
    seed = int(opts.get("--seed", 424242))
    asan, plain = builder.build("asan"), builder.build("plain")
    if not asan or not plain:
        return 3
    base = tempfile.mkdtemp(prefix="gdsim-det-", dir=os.path.join(VERIF, "build"))
    cfgs = [("asan-16", asan, 16), ("asan-3", asan, 3), ("plain-16", plain, 16), ("asan-16-again", asan, 16)]
    results = {}
    for name, exe, workers in cfgs:
        results[name] = run_cfg(exe, prop, tier, seed, workers, runs, os.path.join(base, name))
    ref = results["asan-16"]
    common = set(ref)
    for r in results.values():
        common &= set(r)
    div_struct, div_content = [], []
    for idx in sorted(common):
        for name, r in results.items():
            if r[idx][0] != ref[idx][0] or r[idx][2] != ref[idx][2]:
                div_struct.append((idx, name))
            elif r[idx][1] != ref[idx][1]:
                div_content.append((idx, name))
    out = {"property": prop, "tier": tier, "seed": seed, "indices_compared": len(common), "configurations": [c[0] for c in cfgs],
           "structural_divergences": div_struct[:20], "content_only_divergences": div_content[:20]}
    print(json.dumps(out))
    shutil.rmtree(base, ignore_errors=True)
    return 0 if not div_struct and not div_content and len(common) >= min(runs, 50) else 2


if __name__ == "__main__":
    sys.exit(main())
