#!/usr/bin/env python3
"""tools/mutants.py [name ...] -- sensitivity sweep with small hand-written changes to gdstk.

Each mutant is one textual replacement in /repo (a slip of the kind a refactor produces).  For each:
apply, rebuild the plain simulator, run a bounded exploration of the listed properties on 16 workers,
report the violation signatures that are not covered by a listed known finding, undo the change.
Nothing is committed; /repo is restored with `git checkout` after every mutant (and on exit).

This complements seeded/ (changes written by independent sub-agents); it is not part of any registered
check.  Results go to stdout and to /verif/tools/mutants_last.json.
"""
import json, os, subprocess, sys, tempfile, shutil, time

VERIF = os.path.dirname(os.path.dirname(os.path.abspath(__file__)))
REPO = os.environ.get("GDSTK_REPO", "/repo")
RUNS_PER_WORKER = int(os.environ.get("MUTANT_RUNS", "2000"))
WORKERS = 16

M = []
def mut(name, file, old, new, props, count=1):
    M.append(dict(name=name, file=file, old=old, new=new, props=props, count=count))

L = "src/library.cpp"
O = "src/oasis.cpp"
# ---- GDSII reader (C03 direction 1; C17 where a shortcut reader shares nothing with it)
mut("gds_r_boxtype_ignored", L, "            case GdsiiRecord::DATATYPE:\n            case GdsiiRecord::BOXTYPE:\n                if (polygon)",
    "            case GdsiiRecord::BOXTYPE:\n                break;\n            case GdsiiRecord::DATATYPE:\n                if (polygon)", ["C03"])
mut("gds_r_pathtype1_flush", L, "                        case 1:\n                            path->elements[0].end_type = EndType::Round;",
    "                        case 1:\n                            path->elements[0].end_type = EndType::Flush;", ["C03"])
mut("gds_r_presentation_mask", L, "label->anchor = (Anchor)(data16[0] & 0x000F);", "label->anchor = (Anchor)(data16[0] & 0x0007);", ["C03"])
mut("gds_r_text_mag_ignored", L, "                else if (label)\n                    label->magnification = gdsii_real_to_double(data64[0]);",
    "                else if (label)\n                    label->magnification = 1;", ["C03"])
mut("gds_r_endextn_into_u", L, "if (path) path->elements[0].end_extensions.v = factor * data32[0];", "if (path) path->elements[0].end_extensions.u = factor * data32[0];", ["C03"])
mut("gds_r_width_abs_flag", L, "                    width = factor * -data32[0];\n                    if (path) path->scale_width = false;",
    "                    width = factor * -data32[0];\n                    if (path) path->scale_width = true;", ["C03"])
mut("gds_r_strans_label_reflection", L, "                else if (label)\n                    label->x_reflection = (data16[0] & 0x8000) != 0;",
    "                else if (label)\n                    label->x_reflection = (data16[0] & 0x4000) != 0;", ["C03"])
mut("gds_r_colrow_swapped", L, "                    repetition->columns = data16[0];\n                    repetition->rows = data16[1];",
    "                    repetition->columns = data16[1];\n                    repetition->rows = data16[0];", ["C03"])
mut("gds_r_propattr_8bit", L, "                key = data16[0];", "                key = data16[0] & 0xFF;", ["C03", "C01"])
# ---- GDSII real codec
mut("gds_real_decode_sign", "src/gdsii.cpp", "return (real & 0x8000000000000000) ? -result : result;", "return (real & 0x4000000000000000) ? -result : result;", ["C03"])
# ---- OASIS low level readers (C04 direction 1)
mut("oas_r_3delta_nw", O, "        case OasisDirection::NW:\n            x = -value;\n            y = value;\n            break;\n        case OasisDirection::SW:\n            x = -value;\n            y = -value;\n            break;\n        case OasisDirection::SE:\n            x = value;\n            y = -value;\n    }\n}\n\nvoid oasis_read_gdelta",
    "        case OasisDirection::NW:\n            x = value;\n            y = -value;\n            break;\n        case OasisDirection::SW:\n            x = -value;\n            y = -value;\n            break;\n        case OasisDirection::SE:\n            x = -value;\n            y = value;\n    }\n}\n\nvoid oasis_read_gdelta", ["C04"])
mut("oas_r_real_neg_reciprocal", O, "            return -1.0 / (double)oasis_read_unsigned_integer(in);", "            return 1.0 / (double)oasis_read_unsigned_integer(in);", ["C04"])
mut("oas_r_real_ratio_order", O, "            double num = (double)oasis_read_unsigned_integer(in);\n            double den = (double)oasis_read_unsigned_integer(in);\n            return -num / den;",
    "            double den = (double)oasis_read_unsigned_integer(in);\n            double num = (double)oasis_read_unsigned_integer(in);\n            return -num / den;", ["C04"])
mut("oas_r_rep2_count", O, "            repetition.columns = 2 + oasis_read_unsigned_integer(in);\n            repetition.rows = 1;\n            repetition.spacing.x",
    "            repetition.columns = 1 + oasis_read_unsigned_integer(in);\n            repetition.rows = 1;\n            repetition.spacing.x", ["C04"])
mut("oas_r_rep7_grid", O, "            if (type == 7) {\n                grid_factor *= oasis_read_unsigned_integer(in);", "            if (type == 7) {\n                grid_factor = (double)oasis_read_unsigned_integer(in);", ["C04"])
mut("oas_r_rep9_v2", O, "            repetition.v2.x = -repetition.v1.y;\n            repetition.v2.y = repetition.v1.x;", "            repetition.v2.x = repetition.v1.y;\n            repetition.v2.y = repetition.v1.x;", ["C04"])
mut("oas_r_rep11_accumulate", O, "                v.x += grid_factor * x;\n                v.y += grid_factor * y;\n                repetition.offsets.append_unsafe(v);",
    "                v.x = grid_factor * x;\n                v.y = grid_factor * y;\n                repetition.offsets.append_unsafe(v);", ["C04"])
mut("oas_r_pointlist5_accumulate", O, "                delta.x += scaling * x;\n                delta.y += scaling * y;\n                *cur++ = delta + *ref++;",
    "                delta.x = scaling * x;\n                delta.y = scaling * y;\n                *cur++ = delta + *ref++;", ["C04"])
mut("oas_r_pointlist01_close", O, "                if (horizontal) {\n                    cur->x = initial.x;\n                    cur->y = ref->y;\n                } else {\n                    cur->x = ref->x;\n                    cur->y = initial.y;\n                }",
    "                if (!horizontal) {\n                    cur->x = initial.x;\n                    cur->y = ref->y;\n                } else {\n                    cur->x = ref->x;\n                    cur->y = initial.y;\n                }", ["C04"])
# ---- OASIS records (C04 direction 1)
mut("oas_r_placement_aa_270", L, "                        case 0x06:\n                            reference->rotation = M_PI * 1.5;", "                        case 0x06:\n                            reference->rotation = -M_PI * 1.5;", ["C04"])
mut("oas_r_placement_relative_y", L, "                    if (modal_absolute_pos) {\n                        modal_placement_pos.y = y;\n                    } else {\n                        modal_placement_pos.y += y;\n                    }",
    "                    modal_placement_pos.y = y;", ["C04"])
mut("oas_r_text_type_bit", L, "                if (info & 0x02) {\n                    modal_texttype = (uint32_t)oasis_read_unsigned_integer(in);\n                }\n                set_type(label->tag, modal_texttype);",
    "                if (info & 0x02) {\n                    modal_texttype = (uint32_t)oasis_read_unsigned_integer(in);\n                }\n                set_type(label->tag, (info & 0x02) ? modal_texttype : 0);", ["C04"])
mut("oas_r_text_modal_string_by_number", L, "                    if (modal_text_string->text == NULL) {\n                        label->owner = modal_text_string->owner;",
    "                    if (modal_text_string->text == NULL) {\n                        label->owner = NULL;", ["C04"])
mut("oas_r_placement_mag_flag", L, "                    if (info & 0x04) {\n                        reference->magnification = oasis_read_real(in);", "                    if (info & 0x04) {\n                        reference->magnification = fabs(oasis_read_real(in));", ["C04"])
# ---- writers (C01/C03 direction 2, C02/C04 direction 2)
mut("gds_w_label_angle_sign", "src/label.cpp", "rot_real = gdsii_real_from_double(rotation * (180.0 / M_PI));", "rot_real = gdsii_real_from_double(fabs(rotation) * (180.0 / M_PI));", ["C01", "C03"])
mut("oas_w_rep_explicit_absolute", O, "oasis_write_gdelta(out, next_x - last_x, next_y - last_y);", "oasis_write_gdelta(out, next_x, next_y);", ["C02", "C04"])

# ---- batch 2: shortcut readers (C17), OASIS PATH scheme, writers
mut("info_box_not_counted", L, "            case GdsiiRecord::BOUNDARY:\n            case GdsiiRecord::BOX:\n                info.num_polygons++;",
    "            case GdsiiRecord::BOX:\n                next_set = &info.shape_tags;\n                break;\n            case GdsiiRecord::BOUNDARY:\n                info.num_polygons++;", ["C17"])
mut("info_text_tags_in_shape_set", L, "                next_set = &info.label_tags;", "                next_set = &info.shape_tags;", ["C17"])
mut("info_unit_formula", L, "                info.unit = info.precision / gdsii_real_to_double(data64[0]);", "                info.unit = info.precision * gdsii_real_to_double(data64[0]);", ["C17"])
mut("units_swapped_reals", L, "            precision = gdsii_real_to_double(data64[1]);\n            unit = precision / gdsii_real_to_double(data64[0]);",
    "            precision = gdsii_real_to_double(data64[0]);\n            unit = precision / gdsii_real_to_double(data64[1]);", ["C17", "C18"])
mut("timestamp_month_zero_based", L, "            result.tm_mon = data16[1] - 1;", "            result.tm_mon = data16[1];", ["C17"])
mut("timestamp_rewrite_month", L, "        new_tm_buffer[1] = new_timestamp->tm_mon + 1;", "        new_tm_buffer[1] = new_timestamp->tm_mon;", ["C17"])
mut("timestamp_rewrite_half", L, "        memcpy(new_tm_buffer + 6, new_tm_buffer, 6 * sizeof(uint16_t));", "        memcpy(new_tm_buffer + 6, new_tm_buffer, 5 * sizeof(uint16_t));", ["C17"])
mut("oas_r_path_ss_halfwidth", L, "                        case 0x08:\n                            modal_path_extensions.u = modal_path_halfwidth;", "                        case 0x08:\n                            modal_path_extensions.u = 0;", ["C04"])
mut("oas_r_path_ee_unsigned", L, "                        case 0x03:\n                            modal_path_extensions.v = factor * oasis_read_integer(in);", "                        case 0x03:\n                            modal_path_extensions.v = factor * (double)oasis_read_unsigned_integer(in);", ["C04"])
mut("oas_r_path_relative_x", L, "                path->spine.append(modal_geom_pos);", "                path->spine.append(Vec2{modal_geom_pos.x, modal_geom_pos.y});\n                if (!modal_absolute_pos && (info & 0x10) && (info & 0x04) == 0x40) modal_geom_pos.x = 0;", ["C04"])
mut("oas_r_text_x_relative", L, "                    if (modal_absolute_pos) {\n                        modal_text_pos.x = x;\n                    } else {\n                        modal_text_pos.x += x;\n                    }", "                    modal_text_pos.x = x;", ["C04"])
mut("oas_r_placement_explicit_by_name_modal", L, "                        reference->name = copy_string(modal_placement_cell->name, NULL);", "                        reference->name = copy_string(modal_placement_cell->name, NULL);\n                        reference->name[0] = reference->name[0] ? (char)(reference->name[0] ^ 1) : 0;", ["C04"])

# ---- batch 3: compact shapes, properties, modal resets, OASIS writer records
mut("oas_r_ctrap20", L, "                        v[1].x += 2 * modal_geom_dim.y;\n                        v[2] += modal_geom_dim.y;\n                        modal_geom_dim.x = 2 * modal_geom_dim.y;",
    "                        v[1].x += 2 * modal_geom_dim.y;\n                        v[2].x += modal_geom_dim.y;\n                        modal_geom_dim.x = 2 * modal_geom_dim.y;", ["C04"])
mut("oas_r_ctrap22", L, "                        v[1] += modal_geom_dim.x;\n                        v[2].y += 2 * modal_geom_dim.x;", "                        v[1] += modal_geom_dim.x;\n                        v[2].y += modal_geom_dim.x;", ["C04"])
mut("oas_r_ctrap9", L, "                    case 9:\n                        v[3].y -= modal_geom_dim.x;", "                    case 9:\n                        v[3].y += modal_geom_dim.x;", ["C04"])
mut("oas_r_ctrap13", L, "                        v[0].y += modal_geom_dim.x;\n                        v[3].y -= modal_geom_dim.x;", "                        v[0].y += modal_geom_dim.x;\n                        v[2].y -= modal_geom_dim.x;", ["C04"])
mut("oas_r_ctrap25", L, "v[2].y = v[3].y = modal_geom_pos.y + modal_geom_dim.x;", "v[2].y = v[3].y = modal_geom_pos.y + modal_geom_dim.y;", ["C04"])
mut("oas_r_trap_delta_b", L, "                        q->x = s->x + delta_b;", "                        q->x = s->x - delta_b;", ["C04"])
mut("oas_r_circle_radius", L, "modal_circle_radius = factor * oasis_read_unsigned_integer(in);", "modal_circle_radius = 0.5 * factor * oasis_read_unsigned_integer(in);", ["C04"])
mut("oas_r_prop_count15", L, "                    if (num_values == 15) {", "                    if (num_values == 14) {", ["C04"])
mut("oas_r_cell_resets_geom_pos", L, "                modal_geom_pos = Vec2{0, 0};\n                modal_text_pos = Vec2{0, 0};", "                modal_text_pos = Vec2{0, 0};", ["C04"])
mut("oas_r_cell_resets_xy_mode", L, "                modal_absolute_pos = true;\n                modal_placement_pos = Vec2{0, 0};", "                modal_placement_pos = Vec2{0, 0};", ["C04"])
mut("oas_w_placement_negative_quarter", L, "info |= ((uint8_t)(0x03 & ((m % 4) + 4))) << 1;", "info |= ((uint8_t)(0x03 & (-m % 4))) << 1;", ["C02", "C04"])
mut("oas_w_placement_angle_abs", L, "oasis_write_real(out, ref->rotation * (180.0 / M_PI));", "oasis_write_real(out, fabs(ref->rotation) * (180.0 / M_PI));", ["C02", "C04"])
mut("oas_w_text_layer_type_swapped", L, "            oasis_write_unsigned_integer(out, get_layer(label->tag));\n            oasis_write_unsigned_integer(out, get_type(label->tag));\n            oasis_write_integer(out, (int64_t)llround(label->origin.x",
    "            oasis_write_unsigned_integer(out, get_type(label->tag));\n            oasis_write_unsigned_integer(out, get_layer(label->tag));\n            oasis_write_integer(out, (int64_t)llround(label->origin.x", ["C02", "C04"])


def sh(cmd, **kw):
    return subprocess.run(cmd, stdout=subprocess.PIPE, stderr=subprocess.STDOUT, text=True, **kw)


def known():
    k = json.load(open(os.path.join(VERIF, "known_findings.json")))
    return [f for f in k["findings"] if f.get("status") == "open"]


def is_known(v, kf):
    for f in kf:
        if f["signature"] != v["signature"]:
            continue
        cm = f.get("context_match", {})
        if all(v.get("context", {}).get(a) == b for a, b in cm.items()):
            return True
    return False


def restore():
    sh(["git", "-C", REPO, "checkout", "--", "."])


def explore(prop, seed, workdir):
    exe = os.path.join(VERIF, "build", "plain", "gdsim")
    procs = []
    for w in range(WORKERS):
        out = os.path.join(workdir, "%s-%d.json" % (prop, w))
        procs.append((out, subprocess.Popen([exe, "explore", "--prop", prop, "--tier", "0", "--seed", str(seed), "--start", str(w),
                                             "--stride", str(WORKERS), "--runs", str(RUNS_PER_WORKER), "--out", out],
                                            stdout=subprocess.DEVNULL, stderr=subprocess.DEVNULL)))
    viols, runs, died = [], 0, 0
    for out, p in procs:
        rc = p.wait()
        if rc != 0:
            died += 1
        try:
            j = json.load(open(out))
            runs += j.get("runs", 0)
            viols += j.get("violations", [])
        except Exception:
            pass
    return runs, viols, died


def main():
    want = set(sys.argv[1:])
    kf = known()
    results = []
    try:
        for m in M:
            if want and m["name"] not in want:
                continue
            path = os.path.join(REPO, m["file"])
            src = open(path).read()
            if src.count(m["old"]) != m["count"]:
                print("%-34s SKIPPED: pattern found %d times" % (m["name"], src.count(m["old"])))
                results.append(dict(name=m["name"], status="pattern-not-found"))
                continue
            open(path, "w").write(src.replace(m["old"], m["new"]))
            b = sh([sys.executable, os.path.join(VERIF, "build.py"), "plain"])
            if b.returncode != 0:
                print("%-34s SKIPPED: does not compile" % m["name"])
                results.append(dict(name=m["name"], status="does-not-compile"))
                restore()
                continue
            wd = tempfile.mkdtemp(prefix="mutant-")
            caught_by = {}
            t0 = time.time()
            for prop in m["props"]:
                runs, viols, died = explore(prop, 4711, wd)
                sigs = sorted(set(v["signature"] for v in viols if not is_known(v, kf)))
                if died:
                    sigs.append("%d worker(s) died" % died)
                caught_by[prop] = dict(runs=runs, signatures=sigs)
            shutil.rmtree(wd, ignore_errors=True)
            restore()
            caught = any(c["signatures"] for c in caught_by.values())
            print("%-34s %s  %s  (%.0fs)" % (m["name"], "caught" if caught else "MISSED",
                                             "; ".join("%s:%s" % (p, ",".join(c["signatures"]) or "-") for p, c in caught_by.items()), time.time() - t0))
            sys.stdout.flush()
            results.append(dict(name=m["name"], file=m["file"], status="caught" if caught else "missed", checks=caught_by))
    finally:
        restore()
        sh([sys.executable, os.path.join(VERIF, "build.py"), "plain"])
    json.dump(results, open(os.path.join(VERIF, "tools", "mutants_last.json"), "w"), indent=1)


if __name__ == "__main__":
    main()
