#!/bin/bash
# tools/try_seed.sh <name> <prop> [<prop> ...]
# 1. confirms a seeded change in its scratch worktree /tmp/seed/<name> (compiles, 18/18 tests, demo fails with / passes without)
# 2. applies it to /repo, runs the quick checks of the given properties, undoes it
# 3. stores patch, demonstration and meta.json under /verif/seeded/<name>/
set -u
name=$1; shift
wt=/tmp/seed/$name
out=/verif/seeded/$name
mkdir -p $out
cd $wt || exit 9
[ -f patch.diff ] || { echo "no patch.diff"; exit 9; }
LIBS="_b/src/libgdstk.a _b/external/libclipper.a -lz -lqhull_r"
build() { cmake -G Ninja -S $wt -B $wt/_b -DCMAKE_BUILD_TYPE=RelWithDebInfo >/dev/null && cmake --build $wt/_b -j16 --target all examples >/dev/null 2>&1; }
demo() { g++ -std=c++17 -I$wt/include -I$wt/external demo.cpp $LIBS -o demo_bin 2>/dev/null && (cd $wt && timeout 120 ./demo_bin >/dev/null 2>&1); echo $?; }
git checkout -q -- src include; git apply patch.diff || { echo "patch does not apply"; exit 9; }
build || { echo "does not build"; exit 9; }
tests=$(ctest --test-dir $wt/_b -j8 2>&1 | grep -o "[0-9]*% tests passed, [0-9]* tests failed out of [0-9]*")
with=$(demo)
git checkout -q -- src include
build
without=$(demo)
git apply patch.diff
echo "[$name] ctest with patch: $tests ; demo with patch exit=$with ; demo without patch exit=$without"
cp patch.diff demo.cpp $out/
results="{"
sep=""
cd /verif
git -C /repo apply $wt/patch.diff || { echo "patch does not apply to /repo"; exit 9; }
for prop in "$@"; do
  t0=$(date +%s)
  ./check $prop quick > $out/check-$prop.log 2>&1
  rc=$?
  t1=$(date +%s)
  nviol=$(grep -c "^VIOLATION property=$prop" $out/check-$prop.log)
  sigs=$(grep "^  signature:" $out/check-$prop.log | sed 's/  signature: //' | sort -u | tr '\n' ';')
  echo "[$name] check $prop quick: exit=$rc violations=$nviol sigs=$sigs ($((t1-t0))s)"
  results="$results$sep\"$prop\": {\"exit\": $rc, \"violation_lines\": $nviol, \"signatures\": \"$sigs\", \"seconds\": $((t1-t0))}"
  sep=", "
done
results="$results}"
git -C /repo checkout -- .
cat > $out/run.json <<EOT
{"name": "$name", "ctest_with_patch": "$tests", "demo_exit_with_patch": $with, "demo_exit_without_patch": $without, "checks": $results}
EOT
